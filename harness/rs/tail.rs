
// ===========================================================================
// Verification harness tail.  This text is appended to a copy of
// /repo/rust/src/lib.rs (current working tree) so that the private items of
// the checker are callable.  It drives the implementation and records what it
// did as JSON lines; it never judges anything.
//
// Protocol (stdin, one command per line; terms in prefix form):
//   term  := ev N | sv N | sym N | imp T T | app T T | ex N T | mu N T
//          | mv N L L L L L | es T N T | ss T N T         (es/ss: body var plug)
//   L     := K n1 .. nK
//   fn e_fresh|s_fresh|positive|negative N T
//   fn well_formed T
//   fn apply_esubst|apply_ssubst N T T        (var, pattern, plug)
//   fn instantiate K id1..idK T P1..PK        (pattern, plugs)
//   reset                                     clear stack, memory, claims
//   clearstack
//   push pat|prf T      mem pat|prf T      claim T
//   exec gamma|claim|proof B1 B2 ...          run bytes on the persistent state
//   dump
//   verify NG g.. NC c.. NP p..               real verify() + own 3-phase run
// Every command answers with exactly one JSON line.
// ===========================================================================
extern crate std;
use std::io::{BufRead, Write};
use std::panic::{catch_unwind, AssertUnwindSafe};
use std::string::String;

struct Toks<'a> {
    v: Vec<&'a str>,
    i: usize,
}
impl<'a> Toks<'a> {
    fn next(&mut self) -> &'a str {
        let t = self.v[self.i];
        self.i += 1;
        t
    }
    fn num(&mut self) -> usize {
        self.next().parse::<usize>().unwrap()
    }
    fn id(&mut self) -> Id {
        self.num() as Id
    }
    fn list(&mut self) -> IdList {
        let k = self.num();
        (0..k).map(|_| self.id()).collect()
    }
    fn bytes(&mut self) -> Vec<u8> {
        let k = self.num();
        (0..k).map(|_| self.num() as u8).collect()
    }
    fn rest_bytes(&mut self) -> Vec<u8> {
        let mut r = Vec::new();
        while self.i < self.v.len() {
            r.push(self.num() as u8);
        }
        r
    }
    fn term(&mut self) -> Rc<Pattern> {
        match self.next() {
            "ev" => evar(self.id()),
            "sv" => svar(self.id()),
            "sym" => symbol(self.id()),
            "imp" => {
                let l = self.term();
                let r = self.term();
                implies(l, r)
            }
            "app" => {
                let l = self.term();
                let r = self.term();
                app(l, r)
            }
            "ex" => {
                let v = self.id();
                exists(v, self.term())
            }
            "mu" => {
                let v = self.id();
                mu(v, self.term())
            }
            "mv" => {
                let id = self.id();
                let e_fresh = self.list();
                let s_fresh = self.list();
                let positive = self.list();
                let negative = self.list();
                let app_ctx_holes = self.list();
                Rc::new(Pattern::MetaVar {
                    id,
                    e_fresh,
                    s_fresh,
                    positive,
                    negative,
                    app_ctx_holes,
                })
            }
            "es" => {
                let p = self.term();
                let v = self.id();
                let g = self.term();
                esubst(p, v, g)
            }
            "ss" => {
                let p = self.term();
                let v = self.id();
                let g = self.term();
                ssubst(p, v, g)
            }
            t => panic!("harness: bad term token {}", t),
        }
    }
}

fn jl(l: &IdList) -> String {
    let v: Vec<String> = l.iter().map(|x| std::format!("{}", x)).collect();
    std::format!("[{}]", v.join(","))
}
fn jt(p: &Pattern) -> String {
    match p {
        Pattern::EVar(i) => std::format!("{{\"t\":\"ev\",\"i\":{}}}", i),
        Pattern::SVar(i) => std::format!("{{\"t\":\"sv\",\"i\":{}}}", i),
        Pattern::Symbol(i) => std::format!("{{\"t\":\"sym\",\"i\":{}}}", i),
        Pattern::Implies { left, right } => {
            std::format!("{{\"t\":\"imp\",\"l\":{},\"r\":{}}}", jt(left), jt(right))
        }
        Pattern::App { left, right } => {
            std::format!("{{\"t\":\"app\",\"l\":{},\"r\":{}}}", jt(left), jt(right))
        }
        Pattern::Exists { var, subpattern } => {
            std::format!("{{\"t\":\"ex\",\"v\":{},\"p\":{}}}", var, jt(subpattern))
        }
        Pattern::Mu { var, subpattern } => {
            std::format!("{{\"t\":\"mu\",\"v\":{},\"p\":{}}}", var, jt(subpattern))
        }
        Pattern::MetaVar {
            id,
            e_fresh,
            s_fresh,
            positive,
            negative,
            app_ctx_holes,
        } => std::format!(
            "{{\"t\":\"mv\",\"i\":{},\"ef\":{},\"sf\":{},\"pos\":{},\"neg\":{},\"hol\":{}}}",
            id,
            jl(e_fresh),
            jl(s_fresh),
            jl(positive),
            jl(negative),
            jl(app_ctx_holes)
        ),
        Pattern::ESubst {
            pattern,
            evar_id,
            plug,
        } => std::format!(
            "{{\"t\":\"es\",\"p\":{},\"v\":{},\"g\":{}}}",
            jt(pattern),
            evar_id,
            jt(plug)
        ),
        Pattern::SSubst {
            pattern,
            svar_id,
            plug,
        } => std::format!(
            "{{\"t\":\"ss\",\"p\":{},\"v\":{},\"g\":{}}}",
            jt(pattern),
            svar_id,
            jt(plug)
        ),
    }
}
fn jterm(t: &Term) -> String {
    match t {
        Term::Pattern(p) => std::format!("{{\"k\":\"pat\",\"p\":{}}}", jt(p)),
        Term::Proved(p) => std::format!("{{\"k\":\"prf\",\"p\":{}}}", jt(p)),
    }
}
fn jentry(t: &Entry) -> String {
    match t {
        Entry::Pattern(p) => std::format!("{{\"k\":\"pat\",\"p\":{}}}", jt(p)),
        Entry::Proved(p) => std::format!("{{\"k\":\"prf\",\"p\":{}}}", jt(p)),
    }
}
fn jstate(stack: &Stack, memory: &Memory, claims: &Claims) -> String {
    let s: Vec<String> = stack.iter().map(jterm).collect();
    let m: Vec<String> = memory.iter().map(jentry).collect();
    let c: Vec<String> = claims.iter().map(|p| jt(p)).collect();
    std::format!(
        "\"stack\":[{}],\"memory\":[{}],\"claims\":[{}]",
        s.join(","),
        m.join(","),
        c.join(",")
    )
}
fn clone_mem(m: &Memory) -> Memory {
    m.iter()
        .map(|e| match e {
            Entry::Pattern(p) => Entry::Pattern(p.clone()),
            Entry::Proved(p) => Entry::Proved(p.clone()),
        })
        .collect()
}
fn phase_of(s: &str) -> ExecutionPhase {
    match s {
        "gamma" => ExecutionPhase::Gamma,
        "claim" => ExecutionPhase::Claim,
        "proof" => ExecutionPhase::Proof,
        _ => panic!("harness: bad phase"),
    }
}
fn jb(b: bool) -> &'static str {
    if b {
        "true"
    } else {
        "false"
    }
}

// run bytes on copies of the state; commit only when no panic
fn exec_guarded(
    bytes: &Vec<u8>,
    stack: &mut Stack,
    memory: &mut Memory,
    claims: &mut Claims,
    phase: &str,
) -> bool {
    let mut s2 = stack.clone();
    let mut m2 = clone_mem(memory);
    let mut c2 = claims.clone();
    let ph = phase_of(phase);
    let r = catch_unwind(AssertUnwindSafe(|| {
        execute_instructions(bytes, &mut s2, &mut m2, &mut c2, ph);
    }));
    if r.is_ok() {
        *stack = s2;
        *memory = m2;
        *claims = c2;
        true
    } else {
        false
    }
}

pub fn main() {
    std::panic::set_hook(std::boxed::Box::new(|_| {}));
    let stdin = std::io::stdin();
    let stdout = std::io::stdout();
    let mut out = std::io::BufWriter::new(stdout.lock());
    let mut stack: Stack = Vec::new();
    let mut memory: Memory = Vec::new();
    let mut claims: Claims = Vec::new();
    for line in stdin.lock().lines() {
        let line = line.unwrap();
        let mut tk = Toks {
            v: line.split_whitespace().collect(),
            i: 0,
        };
        if tk.v.is_empty() {
            continue;
        }
        let cmd = tk.next();
        let ans: String = match cmd {
            "fn" => {
                let name = tk.next();
                match name {
                    "e_fresh" | "s_fresh" | "positive" | "negative" => {
                        let id = tk.id();
                        let t = tk.term();
                        let r = catch_unwind(AssertUnwindSafe(|| match name {
                            "e_fresh" => t.e_fresh(id),
                            "s_fresh" => t.s_fresh(id),
                            "positive" => t.positive(id),
                            _ => t.negative(id),
                        }));
                        match r {
                            Ok(b) => std::format!("{{\"out\":\"ok\",\"res\":{}}}", jb(b)),
                            Err(_) => String::from("{\"out\":\"panic\"}"),
                        }
                    }
                    "well_formed" => {
                        let t = tk.term();
                        match catch_unwind(AssertUnwindSafe(|| t.well_formed())) {
                            Ok(b) => std::format!("{{\"out\":\"ok\",\"res\":{}}}", jb(b)),
                            Err(_) => String::from("{\"out\":\"panic\"}"),
                        }
                    }
                    "apply_esubst" | "apply_ssubst" => {
                        let id = tk.id();
                        let p = tk.term();
                        let g = tk.term();
                        let r = catch_unwind(AssertUnwindSafe(|| {
                            if name == "apply_esubst" {
                                apply_esubst(&p, id, &g)
                            } else {
                                apply_ssubst(&p, id, &g)
                            }
                        }));
                        match r {
                            Ok(t) => std::format!("{{\"out\":\"ok\",\"res\":{}}}", jt(&t)),
                            Err(_) => String::from("{\"out\":\"panic\"}"),
                        }
                    }
                    "instantiate" => {
                        let ids = tk.list();
                        let mut p = tk.term();
                        let plugs: Vec<Rc<Pattern>> = (0..ids.len()).map(|_| tk.term()).collect();
                        let r = catch_unwind(AssertUnwindSafe(|| {
                            instantiate_in_place(&mut p, &ids, &plugs);
                            p
                        }));
                        match r {
                            Ok(t) => std::format!("{{\"out\":\"ok\",\"res\":{}}}", jt(&t)),
                            Err(_) => String::from("{\"out\":\"panic\"}"),
                        }
                    }
                    _ => String::from("{\"out\":\"badcmd\"}"),
                }
            }
            "reset" => {
                stack.clear();
                memory.clear();
                claims.clear();
                String::from("{\"out\":\"ok\"}")
            }
            "clearstack" => {
                stack.clear();
                String::from("{\"out\":\"ok\"}")
            }
            "push" => {
                let k = tk.next();
                let t = tk.term();
                stack.push(if k == "pat" {
                    Term::Pattern(t)
                } else {
                    Term::Proved(t)
                });
                String::from("{\"out\":\"ok\"}")
            }
            "mem" => {
                let k = tk.next();
                let t = tk.term();
                memory.push(if k == "pat" {
                    Entry::Pattern(t)
                } else {
                    Entry::Proved(t)
                });
                String::from("{\"out\":\"ok\"}")
            }
            "claim" => {
                let t = tk.term();
                claims.push(t);
                String::from("{\"out\":\"ok\"}")
            }
            "exec" => {
                let ph = tk.next();
                let bytes = tk.rest_bytes();
                let ok = exec_guarded(&bytes, &mut stack, &mut memory, &mut claims, ph);
                std::format!(
                    "{{\"out\":\"{}\",{}}}",
                    if ok { "ok" } else { "panic" },
                    jstate(&stack, &memory, &claims)
                )
            }
            "dump" => std::format!("{{\"out\":\"ok\",{}}}", jstate(&stack, &memory, &claims)),
            "verify" => {
                let g = tk.bytes();
                let c = tk.bytes();
                let p = tk.bytes();
                let real = catch_unwind(AssertUnwindSafe(|| verify(&g, &c, &p))).is_ok();
                // the same three phases, step by step, to observe the final state
                let mut s: Stack = Vec::new();
                let mut m: Memory = Vec::new();
                let mut cl: Claims = Vec::new();
                let mut wher = "end";
                let mut own = exec_guarded(&g, &mut s, &mut m, &mut cl, "gamma");
                if !own {
                    wher = "gamma";
                }
                if own {
                    s.clear();
                    own = exec_guarded(&c, &mut s, &mut m, &mut cl, "claim");
                    if !own {
                        wher = "claim";
                    }
                }
                if own {
                    s.clear();
                    own = exec_guarded(&p, &mut s, &mut m, &mut cl, "proof");
                    if !own {
                        wher = "proof";
                    }
                }
                if own && !cl.is_empty() {
                    own = false;
                }
                std::format!(
                    "{{\"out\":\"{}\",\"own\":\"{}\",\"where\":\"{}\",{}}}",
                    if real { "ok" } else { "panic" },
                    if own { "ok" } else { "panic" },
                    wher,
                    jstate(&s, &m, &cl)
                )
            }
            _ => String::from("{\"out\":\"badcmd\"}"),
        };
        writeln!(out, "{}", ans).unwrap();
    }
    out.flush().unwrap();
}
