"""Tracing wrappers around the real interpreters: one event per primitive interpreter call
(= one machine instruction), logged after the call returned or raised.  No repository hook."""
from __future__ import annotations
from io import BytesIO, StringIO
from proof_generation import pattern as P
from proof_generation.proved import Proved
from proof_generation.claim import Claim
from proof_generation.interpreter import ExecutionPhase
from proof_generation.serializing_interpreter import SerializingInterpreter
from proof_generation.stateful_interpreter import StatefulInterpreter

PRIMS = ['evar', 'svar', 'symbol', 'metavar', 'implies', 'app', 'exists', 'mu', 'esubst', 'ssubst', 'prop1', 'prop2',
         'prop3', 'modus_ponens', 'exists_quantifier', 'exists_generalization', 'instantiate', 'instantiate_pattern',
         'pop', 'save', 'load', 'publish_proof', 'publish_axiom', 'publish_claim', 'into_claim_phase', 'into_proof_phase']
FULL = {'load', 'save', 'publish_axiom', 'publish_claim', 'publish_proof', 'instantiate', 'exists_generalization', 'into_claim_phase', 'into_proof_phase'}
PHASE = {ExecutionPhase.Gamma: 'gamma', ExecutionPhase.Claim: 'claim', ExecutionPhase.Proof: 'proof'}


class Sink(BytesIO):
    def close(self):          # keep the bytes readable after the interpreter closes the sink
        pass


class TSink(StringIO):
    def close(self):
        pass


def entry(B, x):
    if isinstance(x, Proved):
        return {'k': 'prf', 'p': B.to_json(x.conclusion)}
    return {'k': 'pat', 'p': B.to_json(x)}


def jarg(B, a):
    if isinstance(a, Proved) or isinstance(a, P.Pattern) and not isinstance(a, (P.EVar, P.SVar)):
        return entry(B, a)
    if isinstance(a, (P.EVar, P.SVar)):
        return entry(B, a)
    if isinstance(a, (bool, int)):
        return a
    if isinstance(a, str):
        return a
    if isinstance(a, tuple):
        return [x.name if isinstance(x, (P.EVar, P.SVar)) else x for x in a]
    if isinstance(a, dict) or hasattr(a, 'items'):
        return [[k, B.to_json(v)] for k, v in a.items()]
    return str(type(a))


def make_tracing(base):
    class T(base):
        def _tr_init(self, bridge, sinks):
            self._B = bridge
            self._events = []
            self._depth = 0
            self._sinks = sinks
            self._pos = {id(s): 0 for s in sinks}
            self._memlen = 0
            self._symseen = 0

        def _snap(self, name, args, out):
            B = self._B
            sink = self.out
            new = b''
            if isinstance(sink, BytesIO):
                v = sink.getvalue()
                new = v[self._pos.get(id(sink), 0):]
                self._pos[id(sink)] = len(v)
            n = len(self._events)
            full = getattr(self, '_full_always', False) or n % 8 == 0 or name in FULL or out != 'ok'
            ev = {'m': name, 'out': out, 'bytes': list(new), 'phase': PHASE[self.phase], 'len': len(self.stack),
                  'top': (entry(B, self.stack[-1]) if self.stack else {'k': 'none', 'p': {'t': 'ev', 'i': 0}}) if full
                         else {'k': 'skip', 'p': {'t': 'ev', 'i': 0}},
                  'mem': [entry(B, x) for x in self.memory[self._memlen:]], 'memlen': len(self.memory),
                  'args': [jarg(B, a) for a in args] if getattr(self, '_log_args', False) else []}
            ck = [id(c) for c in self.claims]
            if ck != getattr(self, '_claims_key', None):      # the tracker's claim list changed (or first event)
                self._claims_key = ck
                ev['cc'] = True
                ev['claims'] = [B.to_json(c.pattern) for c in self.claims]
            else:
                ev['cc'] = False
                ev['claims'] = []
            self._memlen = len(self.memory)
            syms = getattr(self, '_symbol_identifiers', None)
            ev['syms'] = []
            if syms is not None and len(syms) > self._symseen:
                items = list(syms.items())
                ev['syms'] = [[B.symnum(k), v] for k, v in items[self._symseen:]]
                self._symseen = len(items)
            self._events.append(ev)

    def mk(name):
        orig = getattr(base, name)

        def f(self, *args, **kw):
            self._depth += 1
            out = 'ok'
            try:
                return orig(self, *args, **kw)
            except BaseException as e:
                out = 'raise:' + type(e).__name__
                raise
            finally:
                self._depth -= 1
                if self._depth == 0:
                    self._snap(name, args, out)
        return f
    for nm in PRIMS:
        setattr(T, nm, mk(nm))
    return T


TracingSerializer = make_tracing(SerializingInterpreter)


def new_serializer(bridge, phase='gamma', claims=()):
    sinks = [Sink(), Sink(), Sink()]
    ph = {'gamma': ExecutionPhase.Gamma, 'claim': ExecutionPhase.Claim, 'proof': ExecutionPhase.Proof}[phase]
    first = {'gamma': 0, 'claim': 1, 'proof': 2}[phase]
    it = TracingSerializer(phase=ph, claims=[Claim(c) for c in claims], out=sinks[first], claim_out=sinks[1], proof_out=sinks[2])
    it._tr_init(bridge, sinks)
    it._full_always = True
    it._log_args = True
    return it, sinks
