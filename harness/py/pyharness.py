"""Drives the Python toolkit: reads one JSON command per line, performs the call on the REAL
classes of proof_generation, answers one JSON line {"out": "ok" | "raise:<Class>", "res": ...}.
It records, it never judges."""
from __future__ import annotations
import json, sys, traceback
from bridge import Bridge
from proof_generation import pattern as P
from proof_generation.basic_interpreter import BasicInterpreter
from proof_generation.stateful_interpreter import StatefulInterpreter
from proof_generation.interpreter import ExecutionPhase
from proof_generation.proved import Proved

B = Bridge()


def _register_defs():
    import json as _json
    reg = B.__dict__.setdefault('_defs', {})
    for n in all_notations().values():
        reg.setdefault(_json.dumps(B.to_json(n.definition), sort_keys=True), n.definition)
CLS = {'Implies': P.Implies, 'App': P.App, 'Exists': P.Exists, 'Mu': P.Mu, 'EVar': P.EVar, 'SVar': P.SVar,
       'Symbol': P.Symbol, 'MetaVar': P.MetaVar, 'ESubst': P.ESubst, 'SSubst': P.SSubst}
NOTATIONS = {'bot': P.bot, 'not': P.neg, 'top': P.top, 'and': P._and, 'or': P._or, 'equiv': P.equiv}


def J(x):
    """result -> JSON"""
    if isinstance(x, P.Pattern):
        return B.to_json(x)
    if isinstance(x, Proved):
        return B.to_json(x.conclusion)
    if isinstance(x, (bool, int, str)) or x is None:
        return x
    if isinstance(x, (set, frozenset)):
        return sorted(x)
    if isinstance(x, dict):
        if x and all(isinstance(k, str) for k in x):
            return {k: J(v) for k, v in x.items()}      # already a JSON object
        return [[k, J(v)] for k, v in x.items()]
    if isinstance(x, (tuple, list)):
        return [J(v) for v in x]
    raise ValueError(type(x))


def V(x):
    """canonical, kind-tagged result value (for families whose results have several shapes)"""
    if x is None:
        return {'kind': 'none'}
    if isinstance(x, bool):
        return {'kind': 'bool', 'b': x}
    if isinstance(x, int):
        return {'kind': 'int', 'n': x}
    if isinstance(x, str):
        return {'kind': 'int', 'n': B.symnum(x)}
    if isinstance(x, (P.Pattern, Proved)):
        return {'kind': 'term', 't': J(x)}
    if isinstance(x, (set, frozenset)):
        return {'kind': 'ints', 'ns': sorted(x)}
    if isinstance(x, dict):
        return {'kind': 'map', 'kv': [[k, J(v)] for k, v in x.items()]}
    if isinstance(x, (tuple, list)):
        if len(x) == 2 and isinstance(x[0], int) and isinstance(x[1], P.Pattern):
            return {'kind': 'bind', 'n': x[0], 't': J(x[1])}
        return {'kind': 'terms', 'ts': [J(v) for v in x]}
    raise ValueError(type(x))


from pyharness_notations import all_notations


def delta_of(d):
    return {kv[0]: B.to_py(kv[1]) for kv in d}


def interp_of(kind):
    if kind == 'basic':
        return BasicInterpreter(ExecutionPhase.Proof)
    return StatefulInterpreter(ExecutionPhase.Proof)


def do(c):
    f = c['fn']
    if f == 'evar_is_free':
        return B.to_py(c['p']).evar_is_free(c['x'])
    if f == 'metavars':
        return B.to_py(c['p']).metavars()
    if f == 'apply_esubst':
        return B.to_py(c['p']).apply_esubst(c['x'], B.to_py(c['g']))
    if f == 'apply_ssubst':
        return B.to_py(c['p']).apply_ssubst(c['x'], B.to_py(c['g']))
    if f == 'instantiate':
        return B.to_py(c['p']).instantiate(delta_of(c['d']))
    if f == 'eq':
        return B.to_py(c['p']) == B.to_py(c['q'])
    if f == 'match_single':
        seed = delta_of(c['seed']) if c.get('seed') is not None else None
        r = P.match_single(B.to_py(c['p']), B.to_py(c['q']), seed)
        return None if r is None else dict(r)
    if f == 'match':
        r = P.match([(B.to_py(a), B.to_py(b)) for a, b in c['eqs']])
        return None if r is None else dict(r)
    if f == 'op':     # C12: one operation, result as kind-tagged value
        return V(do(c['call']))
    if f == 'apply_notation':
        return all_notations()[c['label']](*[B.to_py(a) for a in c['args']])
    if f == 'notations':
        return [[k, n.arity] for k, n in all_notations().items()]
    if f == 'roundtrip':
        N = all_notations()[c['label']]
        applied = N(*[B.to_py(a) for a in c['args']])
        m = N.matches(applied)
        return {'applied': J(applied), 'matched': m is not None, 'args': [J(a) for a in (m or ())],
                'rebuilt': J(N(*m)) if m is not None else J(applied)}
    if f == 'matches':
        return NOTATIONS[c['label']].matches(B.to_py(c['p']))
    if f == 'unwrap':
        return CLS[c['cls']].unwrap(B.to_py(c['p']))
    if f == 'extract':
        return CLS[c['cls']].extract(B.to_py(c['p']))
    if f == 'deconstruct':
        return CLS[c['cls']].deconstruct(B.to_py(c['p']))
    if f in ('modus_ponens', 'exists_generalization', 'instantiate_rule'):
        it = interp_of(c['interp'])
        if f == 'modus_ponens':
            l, r = Proved(B.to_py(c['l'])), Proved(B.to_py(c['r']))
            if c['interp'] == 'stateful':
                it.stack = [l, r]
            res = it.modus_ponens(l, r)
        elif f == 'exists_generalization':
            pr = Proved(B.to_py(c['p']))
            if c['interp'] == 'stateful':
                it.stack = [pr]
            res = it.exists_generalization(pr, P.EVar(c['x']))
        else:
            pr = Proved(B.to_py(c['p']))
            d = delta_of(c['d'])
            if c['interp'] == 'stateful':
                it.stack = list(d.values()) + [pr]
            res = it.instantiate(pr, d)
        if c['interp'] == 'stateful':
            assert it.stack[-1] == res
        return res
    raise ValueError('unknown fn ' + f)


def main():
    _register_defs()
    out = sys.stdout
    sys.stdout = sys.stderr          # whatever the toolkit prints must not end up in the result stream
    for line in sys.stdin:
        line = line.strip()
        if not line:
            continue
        c = json.loads(line)
        try:
            r = {'out': 'ok', 'res': J(do(c))}
        except Exception as e:       # whatever the toolkit raises is an outcome to be judged, never a crash of the harness
            r = {'out': 'raise:' + type(e).__name__, 'res': None}
        out.write(json.dumps(r, separators=(',', ':')) + '\n')
    out.flush()


main()
