"""Registry of every notation shipped with the toolkit (propositional, definedness, Kore, generated n-ary, quantifiers)."""
from proof_generation import pattern as P
NOTATIONS = {'bot': P.bot, 'not': P.neg, 'top': P.top, 'and': P._and, 'or': P._or, 'equiv': P.equiv}
_ALLN = None


def all_notations():
    global _ALLN
    if _ALLN is None:
        from proof_generation.proofs import definedness as D, kore as K, substitution as S
        n = dict(NOTATIONS)
        for x in (D.ceil, D.floor, D.subset, D.equals, D.functional) + tuple(K.KORE_NOTATIONS):
            n[x.label] = x
        for v in (0, 1, 2):
            n[f'sorted-exists@{v}'] = K.sorted_exists(v)
            n[f'kore-exists@{v}'] = K.kore_exists(v)
            n[f'forall@{v}'] = S.forall(v)
        for k in (0, 1, 2, 3, 11, 13):      # two-digit hole numbers as well
            n[f'nary@{k}'] = K.nary_app(P.Symbol('s7'), k)
            n[f'cell@{k}'] = K.nary_app(P.Symbol('s8'), k, True)
        _ALLN = n
    return _ALLN


