"""Library lemmas (propositional.py / tautology.py): docstring -> schema, application of an entry point to
argument patterns and premise thunks, execution under every interpreter stack, module trace."""
from __future__ import annotations
import inspect, re
from io import StringIO
from bridge import Bridge
import tracing, modules
from proof_generation import pattern as P
from proof_generation.basic_interpreter import BasicInterpreter
from proof_generation.claim import Claim
from proof_generation.counting_interpreter import CountingInterpreter
from proof_generation.interpreter import ExecutionPhase
from proof_generation.optimizing_interpreters import InstantiationOptimizer, MemoizingInterpreter
from proof_generation.pretty_printing_interpreter import PrettyPrintingInterpreter
from proof_generation.proof import ProofThunk
from proof_generation.serializing_interpreter import SerializingInterpreter
from proof_generation.stateful_interpreter import StatefulInterpreter
from proof_generation.tautology import Tautology

# ---------------------------------------------------------------- docstring language
TOK = re.compile(r'\s*(<->|->|/\\|\\/|~|\(|\)|[A-Za-z][A-Za-z0-9_]*)')
SVBASE = 100          # schema variable k is metavariable SVBASE + k


class DocParser:
    """expr := or_expr ; precedence (loosest first): <-> , -> (right assoc) , \\/ , /\\ , ~"""

    def __init__(self, text, vars_):
        self.toks = TOK.findall(text)
        if ''.join(self.toks) != re.sub(r'\s+', '', text):
            raise ValueError('untokenisable: ' + text)
        self.i = 0
        self.vars = vars_

    def peek(self):
        return self.toks[self.i] if self.i < len(self.toks) else None

    def eat(self, t=None):
        x = self.peek()
        if t is not None and x != t:
            raise ValueError(f'expected {t} got {x}')
        self.i += 1
        return x

    def parse(self):
        e = self.equiv()
        if self.peek() is not None:
            raise ValueError('trailing ' + str(self.peek()))
        return e

    def equiv(self):
        l = self.imp()
        if self.peek() == '<->':
            self.eat()
            return P.equiv(l, self.imp())
        return l

    def imp(self):
        l = self.disj()
        if self.peek() == '->':
            self.eat()
            return P.Implies(l, self.imp())
        return l

    def disj(self):
        l = self.conj()
        while self.peek() == '\\/':
            self.eat()
            l = P._or(l, self.conj())
        return l

    def conj(self):
        l = self.unary()
        while self.peek() == '/\\':
            self.eat()
            l = P._and(l, self.unary())
        return l

    def unary(self):
        t = self.peek()
        if t == '~':
            self.eat()
            return P.neg(self.unary())
        if t == '(':
            self.eat()
            e = self.equiv()
            self.eat(')')
            return e
        t = self.eat()
        if t is None:
            raise ValueError('unexpected end')
        if t == 'bot':
            return P.bot()
        if t in ('T', 'top'):
            return P.top()
        if t not in self.vars:
            self.vars[t] = len(self.vars)
        return P.MetaVar(SVBASE + self.vars[t])


PARAM_ALIAS = {'pat1': 'a', 'pat2': 'b', 'pat3': 'c'}
PAT_ALIAS = {'imim_l': 'c', 'imim_and_r': 'a', 'imim_and_l': 'c', 'imim_or_r': 'a', 'imim_or_l': 'c'}


def schema_of(name, f):
    """(premise schemas, conclusion schema, {pattern-parameter -> schema variable index}, parameter kinds) or None"""
    doc = f.__doc__
    if not doc:
        return None
    lines = [l.strip() for l in doc.strip('\n').split('\n') if l.strip()]
    vars_: dict[str, int] = {}
    try:
        if len(lines) == 1:
            text = lines[0].split('   or, alternatively')[0]
            prem, conc = [], DocParser(text, vars_).parse()
        elif len(lines) == 3 and set(lines[1]) == {'-'}:
            prem = [DocParser(t, vars_).parse() for t in re.split(r'\s{2,}', lines[0])]
            conc = DocParser(lines[2], vars_).parse()
        else:
            return None
    except ValueError:
        return None
    params = [p for p in inspect.signature(f).parameters.values() if p.name != 'self']
    kinds, pmap, nprem = [], {}, 0
    for p in params:
        ann = str(p.annotation)
        if 'ProofThunk' in ann:
            kinds.append('thunk'); nprem += 1
        elif 'Pattern' in ann:
            kinds.append('pattern')
            v = PARAM_ALIAS.get(p.name, p.name)
            if p.name == 'pat':
                v = PAT_ALIAS.get(name)
            if v not in vars_:
                return None
            pmap[p.name] = vars_[v]
        else:
            return None
    if nprem != len(prem):
        return None
    return prem, conc, pmap, kinds, [p.name for p in params], len(vars_)


def all_schemas():
    out = {}
    for name, f in inspect.getmembers(Tautology, predicate=inspect.isfunction):
        if name.startswith('_'):
            continue
        s = schema_of(name, f)
        if s:
            out[name] = s
    return out


# ---------------------------------------------------------------- interpreters
def interp_stacks():
    def sink3():
        return dict(out=tracing.Sink(), claim_out=tracing.Sink(), proof_out=tracing.Sink())

    def tsink3():
        return dict(out=tracing.TSink(), claim_out=tracing.TSink(), proof_out=tracing.TSink())
    G = ExecutionPhase.Gamma
    return {
        'basic': lambda cl: BasicInterpreter(G),
        'stateful': lambda cl: StatefulInterpreter(G, cl()),
        'counting': lambda cl: CountingInterpreter(G, cl()),
        'serializing': lambda cl: SerializingInterpreter(G, claims=cl(), **sink3()),
        'pretty': lambda cl: PrettyPrintingInterpreter(G, claims=cl(), **tsink3()),
        'memo(serializing)': lambda cl: MemoizingInterpreter(SerializingInterpreter(G, claims=cl(), **sink3()), set()),
        'instopt(stateful)': lambda cl: InstantiationOptimizer(StatefulInterpreter(G, cl())),
        'instopt(basic)': lambda cl: InstantiationOptimizer(BasicInterpreter(G)),
        'memo(instopt(serializing))': lambda cl: MemoizingInterpreter(InstantiationOptimizer(SerializingInterpreter(G, claims=cl(), **sink3())), set()),
        # what ProofExp.serialize(optimize=True) builds: the memo set is whatever a counting pre-pass over the module suggests
        'optimize(serializing)': lambda cl: MemoizingInterpreter(SerializingInterpreter(G, claims=cl(), **sink3()), set()),
    }


EXC = (Exception,)       # whatever the toolkit raises is an outcome to be judged, never a crash of the harness (MemoryError excepted: see with_budget)


def run_under_all(mod, B, memo_sets=None):
    """execute the module under every interpreter stack; returns per stack the outcome and the conclusions
    returned for the proof expressions"""
    res = []
    for nm, mk in interp_stacks().items():
        cl = lambda: [Claim(c) for c in mod._claims]
        concs, out = [], 'ok'
        try:
            it = mk(cl)
            if nm.startswith('optimize'):
                analyzer = CountingInterpreter(ExecutionPhase.Gamma, cl())
                mod.execute_full(analyzer)
                it._patterns_for_memoization = analyzer.finalize()
            if nm.startswith('memo') and memo_sets is not None:
                it._patterns_for_memoization = set(memo_sets)
            mod.execute_gamma_phase(it)
            mod.execute_claims_phase(it)
            for pe in mod._proof_expressions:
                pr = mod.publish_proof(pe)(it)
                concs.append(B.to_json(pr.conclusion))
        except EXC as e:
            out = 'raise:' + type(e).__name__
        res.append({'interp': nm, 'out': out, 'concs': concs})
    return res


def apply_lemma(req):
    """req: {entry, args: [{'pattern': term} | {'premise': term}]}"""
    B = Bridge()
    t = Tautology()
    t._claims, t._proof_expressions = [], []
    sch = all_schemas().get(req['entry'])
    args, prem_terms = [], []
    for a in req['args']:
        if 'premise' in a:
            ax = B.to_py(a['premise'])
            t.add_axiom(ax)
            prem_terms.append(ax)
            args.append(('thunk', ax))
        else:
            args.append(('pattern', B.to_py(a['pattern'])))
    out = {'entry': req['entry'], 'built': False}
    try:
        nest = req.get('nest', 0)
        # nested compositions: a premise that is itself the result of library lemmas ((P -> P), P |- P), and the result
        # consumed by a further rule in the same way
        wrap = (lambda th: t.modus_ponens(t.imp_refl(th.conc), th)) if nest else (lambda th: th)
        real = [wrap(t.load_axiom(x)) if k == 'thunk' else x for k, x in args]
        thunk = getattr(t, req['entry'])(*real)
        if nest >= 2:
            thunk = wrap(wrap(thunk))
    except EXC as e:
        out['error'] = type(e).__name__ + ': ' + str(e)[:150]
        return out
    out['built'] = True
    out['conc'] = B.to_json(thunk.conc)
    t._claims = [thunk.conc]
    t._proof_expressions = [thunk]
    if sch:
        prem, conc, pmap, kinds, names, nv = sch
        out['schema'] = {'prem': [B.to_json(p) for p in prem], 'conc': B.to_json(conc), 'nvars': nv,
                         'bind': [[SVBASE + pmap[n], B.to_json(x)] for (k, x), n in zip(args, names) if k == 'pattern'],
                         'doc': (getattr(Tautology, req['entry']).__doc__ or '').strip()}
    if req.get('interps', True):
        out['interps'] = run_under_all(t, B)
    for opt in req.get('traces', (False, True)):
        tr = modules.trace_module(t, opt, B)
        out['trace_opt' if opt else 'trace'] = tr
    return out


class Budget(BaseException):
    """the per-request CPU-time budget ran out (normal forms are exponential: a resource limit, not a verdict)"""


def with_budget(fn, req):
    import signal, resource
    def on_alarm(sig, frm):
        raise Budget()
    old = signal.signal(signal.SIGALRM, on_alarm)
    soft, hard = resource.getrlimit(resource.RLIMIT_AS)
    resource.setrlimit(resource.RLIMIT_AS, (req.get('mem_limit', 6 << 30), hard))
    signal.alarm(int(req.get('budget', 120)))
    try:
        return fn(req)
    except Budget:
        return {'out': 'resource:time', 'verdict': 'none', 'conc': req['pat'], 'stages': [], 'stage_error': None}
    except MemoryError:
        return {'out': 'resource:memory', 'verdict': 'none', 'conc': req['pat'], 'stages': [], 'stage_error': None}
    finally:
        signal.alarm(0)
        signal.signal(signal.SIGALRM, old)
        resource.setrlimit(resource.RLIMIT_AS, (soft, hard))


def handle(req):
    if req['cmd'] == 'schemas':
        B = Bridge()
        return {n: {'prem': [B.to_json(p) for p in s[0]], 'conc': B.to_json(s[1]), 'pmap': s[2], 'kinds': s[3], 'names': s[4], 'nvars': s[5]}
                for n, s in all_schemas().items()}
    if req['cmd'] == 'lemma':
        return apply_lemma(req)
    if req['cmd'] == 'expr':
        return do_expr(req)
    if req['cmd'] == 'taut':
        return with_budget(do_taut, req)
    if req['cmd'] == 'resolve':
        return do_resolve(req)
    raise ValueError(req['cmd'])


# ---------------------------------------------------------------- proof-expression recipes
def build_expr(mod, B, r):
    """recipe -> ProofThunk, built with the REAL DSL of ProofExp (raises if the toolkit refuses)"""
    k = r[0]
    if k in ('prop1', 'prop2', 'prop3'):
        return getattr(mod, k)()
    if k == 'quant':
        return mod.exists_quantifier()
    if k == 'mp':
        return mod.modus_ponens(build_expr(mod, B, r[1]), build_expr(mod, B, r[2]))
    if k == 'dyn':
        return mod.dynamic_inst(build_expr(mod, B, r[1]), {kv[0]: B.to_py(kv[1]) for kv in r[2]})
    if k == 'inst':
        return mod.instantiate(build_expr(mod, B, r[1]), {kv[0]: B.to_py(kv[1]) for kv in r[2]})
    if k == 'gen':
        return mod.exists_generalization(build_expr(mod, B, r[1]), P.EVar(r[2]))
    if k == 'axiom':
        return mod.load_axiom(mod._axioms[r[1]])
    if k == 'lemma':
        args = [build_expr(mod, B, a['thunk']) if 'thunk' in a else B.to_py(a['pattern']) for a in r[2]]
        return getattr(mod, r[1])(*args)
    raise ValueError(k)


def build_module(B, spec):
    from proof_generation.proof import ProofExp
    base = Tautology if spec.get('lib', True) else ProofExp
    mod = base()
    mod._claims, mod._proof_expressions = [], []
    mod._axioms = []
    for n in spec.get('notations', []):      # [label, arity, definition, format]
        mod.add_notation(P.Notation(n[0], n[1], B.to_py(n[2]), n[3]))
    for sub in spec.get('imports', []):
        mod.import_module(build_module(B, sub))
    for a in spec.get('axioms', []):
        if spec.get('raw_axioms'):
            mod._axioms.append(B.to_py(a))
        else:
            mod.add_axiom(B.to_py(a))
    for r in spec.get('proofs', []):
        th = build_expr(mod, B, r)
        mod._claims.append(th.conc)
        mod._proof_expressions.append(th)
    for c in spec.get('extra_claims', []):
        mod._claims.append(B.to_py(c))
    return mod


def do_expr(req):
    B = Bridge()
    out = {'built': False}
    try:
        mod = build_module(B, req['module'])
    except EXC as e:
        out['error'] = type(e).__name__ + ': ' + str(e)[:150]
        return out
    out['built'] = True
    out['advertised'] = [B.to_json(c) for c in mod._claims[:len(mod._proof_expressions)]]
    if req.get('interps', True):
        out['interps'] = run_under_all(mod, B)
    for opt in req.get('traces', ()):
        out['trace_opt' if opt else 'trace'] = modules.trace_module(mod, opt, B)
    return out


# ---------------------------------------------------------------- tautology prover
def cf_json(t):
    from proof_generation import tautology as TT
    if isinstance(t, TT.CFBot):
        return {'k': 'bot', 'neg': t.negated, 'c': []}
    if isinstance(t, TT.CFVar):
        return {'k': 'var', 'neg': t.negated, 'c': [], 'id': t.id}
    return {'k': 'or' if isinstance(t, TT.CFOr) else 'and', 'neg': t.negated, 'c': [cf_json(t.left), cf_json(t.right)]}


def do_taut(req):
    from proof_generation import tautology as TT
    B = Bridge()
    t = Tautology()
    pat = B.to_py(req['pat'])
    out = {'out': 'ok', 'verdict': 'none', 'conc': B.to_json(pat), 'stages': [], 'stage_error': None}
    for w in req.get('warm', ()):        # history: other formulas decided before on the SAME Tautology object
        try:
            t.prove_tautology(B.to_py(w))
        except EXC:
            pass
    try:
        r = t.prove_tautology(pat)
    except EXC as e:
        out['out'] = 'raise:' + type(e).__name__
        r = None
    thunk = None
    if r is not None:
        out['verdict'] = 'true' if r[0] else 'false'
        out['conc'] = B.to_json(r[1].conc)
        thunk = r[1]
    if req.get('stages'):
        try:
            npat = P.neg(pat)
            cf, p1, p2 = t.to_conj_form(npat)
            st = {'stage': 'conj', 'in': B.to_json(npat), 'out': B.to_json(TT.conj_to_pattern(cf)), 'cf': cf_json(cf),
                  'pf1': B.to_json(p1.conc), 'pf2': B.to_json(p2.conc) if p2 is not None else None}
            out['stages'].append(st)
            if not isinstance(cf, TT.CFBot):
                ng, q1, q2 = t.propag_neg(cf)
                out['stages'].append({'stage': 'propag', 'in': st['out'], 'out': B.to_json(TT.conj_to_pattern(ng)), 'cf': cf_json(ng),
                                      'pf1': B.to_json(q1.conc), 'pf2': B.to_json(q2.conc)})
                cn, c1, c2 = t.to_cnf(ng)
                out['stages'].append({'stage': 'cnf', 'in': out['stages'][-1]['out'], 'out': B.to_json(TT.conj_to_pattern(cn)), 'cf': cf_json(cn),
                                      'pf1': B.to_json(c1.conc), 'pf2': B.to_json(c2.conc)})
                cl, l1, l2 = t.to_clauses(cn)
                out['stages'].append({'stage': 'clauses', 'in': out['stages'][-1]['out'], 'out': B.to_json(TT.clause_conjunctionto_pattern(cl)),
                                      'cf': {'k': 'clauses', 'neg': False, 'c': [], 'cl': cl},
                                      'pf1': B.to_json(l1.conc), 'pf2': B.to_json(l2.conc)})
        except EXC as e:
            out['stage_error'] = type(e).__name__ + ': ' + str(e)[:100]
    if req.get('trace') and thunk is not None:
        t._claims, t._proof_expressions = [thunk.conc], [thunk]
        out['trace'] = modules.trace_module(t, False, B)
    return out


def do_resolve(req):
    """start_resolution_algorithm on a clause list"""
    B = Bridge()
    calls, entry = [], []

    class Rec(Tautology):          # records the pairs the saturation loop visits (subclass override, no repository hook)
        def resolvable(self, c1, c2):
            calls.append([sorted(c1), sorted(c2)])
            return super().resolvable(c1, c2)

        def resolution_algorithm(self, hint, l):
            entry.append([sorted(c) for c in l])
            r = super().resolution_algorithm(hint, l)
            entry.append(bool(r))
            return r
    t = Rec()
    out = {'out': 'ok', 'res': 'none', 'conc': {'t': 'ev', 'i': 0}, 'loop': None}
    for w in req.get('warm', ()):        # history: other clause lists refuted before on the SAME object
        try:
            t.start_resolution_algorithm([list(c) for c in w])
        except EXC:
            pass
        calls.clear(); entry.clear()
    try:
        r = t.start_resolution_algorithm([list(c) for c in req['clauses']])
        if len(entry) == 2:
            out['loop'] = {'clauses': entry[0], 'calls': calls, 'found': entry[1]}
        if r is not None:
            out['res'] = 'true' if r[0] else 'false'
            out['conc'] = B.to_json(r[1].conc)
    except EXC as e:
        out['out'] = 'raise:' + type(e).__name__
    return out
