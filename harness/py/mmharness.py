"""Drives the Metamath front end (parser, converter, slicer, translator); one JSON answer per request line."""
from __future__ import annotations
import json, os, sys
from proof_generation.metamath.parser import parse_database
from proof_generation.metamath.converter.converter import MetamathConverter
from proof_generation.metamath.ast import ProvableStatement

LETTERS = 'ABCDEFGHIJKLMNOPQRSTUVWXYZ'
PREAMBLE = '''$c #Pattern |- \\imp ( ) $.
$v ph0 ph1 ph2 ph3 $.
ph0-is-pattern $f #Pattern ph0 $.
ph1-is-pattern $f #Pattern ph1 $.
ph2-is-pattern $f #Pattern ph2 $.
ph3-is-pattern $f #Pattern ph3 $.
imp-is-pattern $a #Pattern ( \\imp ph0 ph1 ) $.
proof-rule-prop-1 $a |- ( \\imp ph0 ( \\imp ph1 ph0 ) ) $.
proof-rule-prop-2 $a |- ( \\imp ( \\imp ph0 ( \\imp ph1 ph2 ) ) ( \\imp ( \\imp ph0 ph1 ) ( \\imp ph0 ph2 ) ) ) $.
${ proof-rule-mp.0 $e |- ( \\imp ph0 ph1 ) $. proof-rule-mp.1 $e |- ph0 $. proof-rule-mp $a |- ph1 $. $}
'''
_conv = None


_convs = {}


def conv_for(vorder):
    """converter of the preamble with the $v statement in the given order (the $f statements keep theirs)"""
    key = ' '.join(vorder)
    if key not in _convs:
        pre = PREAMBLE.replace('$v ph0 ph1 ph2 ph3 $.', '$v ' + key + ' $.')
        _convs[key] = (pre, MetamathConverter(parse_database(pre)))
    return _convs[key]


def conv():
    global _conv
    if _conv is None:
        _conv = MetamathConverter(parse_database(PREAMBLE))
    return _conv


def letters(ns):
    return ''.join(LETTERS[n - 1] for n in ns)


def do_mmnum(req):
    """decode many step numbers through the real _import_proof (convert_to_number is local to it)"""
    body = ''.join(letters(w) for w in req['words'])
    # statement without variables: no mandatory hypotheses; no listed labels
    st = parse_database(PREAMBLE + 'g $p |- ( \\imp \\imp \\imp ) $= ( ) ' + body + ' $.').statements[-1]
    try:
        pr = conv()._import_proof(st)
        return {'out': 'ok', 'nums': pr.applied_lemmas}
    except Exception as e:    # noqa
        return {'out': 'raise:' + type(e).__name__, 'nums': []}


def do_mmdecode(req):
    """a $p statement over the given variables, with a label list and a letter string laid out with the given whitespace"""
    vars_ = req['vars']            # variables occurring in the statement, in the order they occur
    term = vars_[0] if len(vars_) == 1 else None
    t = 'ph9'
    if not vars_:
        body_term = '( \\imp \\imp \\imp )'
    else:
        body_term = vars_[-1]
        for x in reversed(vars_[:-1]):
            body_term = f'( \\imp {x} {body_term} )'
    ws = req.get('ws', [' ', ' ', ' '])
    proof = '(' + ws[0] + ws[0].join(req['listed']) + (ws[0] if req['listed'] else '') + ')' + ws[1] + req['layout'].replace('_', ws[2])
    try:
        pre, cv = conv_for(req.get('vorder') or ['ph0', 'ph1', 'ph2', 'ph3'])
        src = pre + f'g $p |- {body_term} $= {proof} $.'
        st = parse_database(src).statements[-1]
        assert isinstance(st, ProvableStatement)
        pr = cv._import_proof(st)
        n = len(pr.labels)
        return {'out': 'ok', 'labels': [pr.labels[k] for k in range(1, n + 1)] if sorted(pr.labels) == list(range(1, n + 1)) else ['<gap>'],
                'steps': pr.applied_lemmas}
    except Exception as e:   # noqa
        return {'out': 'raise:' + type(e).__name__ + ':' + str(e)[:80], 'labels': [], 'steps': []}


def term_json(t):
    from proof_generation.metamath.ast import Application, Metavariable
    if isinstance(t, Metavariable):
        return {'m': t.name}
    return {'s': t.symbol, 'a': [term_json(x) for x in t.subterms]}


def stmt_json(st):
    from proof_generation.metamath import ast as A
    if isinstance(st, A.ConstantStatement):
        return {'k': 'c', 'syms': list(st.constants)}
    if isinstance(st, A.VariableStatement):
        return {'k': 'v', 'vars': [m.name for m in st.metavariables]}
    if isinstance(st, A.DisjointStatement):
        return {'k': 'd', 'vars': [m.name for m in st.metavariables]}
    if isinstance(st, A.FloatingStatement):
        return {'k': 'f', 'label': st.label, 'tc': st.terms[0].symbol, 'var': st.terms[1].name}
    if isinstance(st, A.EssentialStatement):
        return {'k': 'e', 'label': st.label, 'terms': [term_json(t) for t in st.terms]}
    if isinstance(st, A.AxiomaticStatement):
        return {'k': 'a', 'label': st.label, 'terms': [term_json(t) for t in st.terms]}
    if isinstance(st, A.ProvableStatement):
        toks = (st.proof or '?').split()
        listed, lets = [], []
        if toks and toks[0] == '(' and ')' in toks:
            j = toks.index(')')
            listed = toks[1:j]
            lets = [ord(c) - 64 for w in toks[j + 1:] for c in w]
        return {'k': 'p', 'label': st.label, 'terms': [term_json(t) for t in st.terms], 'listed': listed, 'letters': lets, 'ptoks': toks}
    if isinstance(st, A.Block):
        return {'k': 'b', 'stmts': [stmt_json(x) for x in st.statements]}
    return {'k': '?', 'repr': repr(st)[:80]}


def db_json(db):
    return [stmt_json(s) for s in db.statements]


def do_mmdb(req):
    """parse -> print -> parse; slices for every lemma"""
    from proof_generation.metamath.ast import Encoder
    from proof_generation.metamath import metamath_extract_slice as S
    out = {'out': 'ok'}
    try:
        for t in req.get('pre', ()):          # history: other databases handled earlier by the same process
            parse_database(t)
        db = parse_database(req['text'])
        out['ast'] = db_json(db)
        text2 = Encoder.encode_string(db)
        out['printed'] = text2.split()
        out['ast2'] = db_json(parse_database(text2))
        out['slices'] = []
        if req.get('slice', True):
            labels = set(req['lemmas'])
            deps = S.syntax_dependencies(db)
            for label, sl in S.slice_database(db, deps, include=labels, exclude=set()):
                st = Encoder.encode_string(sl)
                try:
                    re_ast = db_json(parse_database(st))
                except Exception as e:   # noqa
                    re_ast = [{'k': '?', 'repr': 'reparse failed: ' + type(e).__name__}]
                out['slices'].append({'label': label, 'ast': db_json(sl), 'printed': st.split(), 'ast2': re_ast})
    except Exception as e:   # noqa
        out['out'] = 'raise:' + type(e).__name__ + ':' + str(e)[:100]
    return out


def do_mmtr(req):
    """translate one target: the real translate.main (files) and a traced run of the same skeleton"""
    import tempfile, io, contextlib
    from pathlib import Path
    from proof_generation.metamath import translate as T
    sys.path.insert(0, os.path.dirname(__file__))
    out = {'out': 'ok', 'files': [[], [], []]}
    with tempfile.TemporaryDirectory() as d:
        src = Path(d) / 'db.mm'
        src.write_text(req['text'])
        argv = sys.argv
        try:
            sys.argv = ['translate', str(src), str(Path(d) / 'out'), req['target']]
            with contextlib.redirect_stdout(io.StringIO()):
                T.main()
            out['files'] = [list((Path(d) / 'out' / f'db.ml-{ph}').read_bytes()) for ph in ('gamma', 'claim', 'proof')]
        except BaseException as e:   # noqa
            out['out'] = 'raise:' + type(e).__name__ + ':' + str(e)[:120]
        finally:
            sys.argv = argv
    if out['out'] == 'ok' and req.get('trace'):
        import modules
        from bridge import Bridge
        from proof_generation.metamath.converter.representation import AxiomWithAntecedents
        from proof_generation.proof import ProofExp
        from proof_generation.interpreter import ExecutionPhase
        db = parse_database(req['text'])
        converter = MetamathConverter(db)
        axs = []
        for name in converter.exported_axioms:
            ax = converter.get_axiom_by_name(name)
            axs.append(T.convert_to_implication(ax.antecedents, ax.pattern) if isinstance(ax, AxiomWithAntecedents) else ax.pattern)
        cls = [converter.get_lemma_by_name(n).pattern for n in converter.lemmas]

        class Skel(ProofExp):
            def __init__(self):
                super().__init__(axioms=axs, claims=cls)

            def execute_proofs_phase(self, interpreter):
                assert interpreter.phase == ExecutionPhase.Proof
                T.exec_proof(converter, req['target'], self, interpreter)
        B = Bridge()
        try:
            out['trace'] = modules.trace_module(Skel(), True, B)
            out['exported_axioms'] = list(converter.exported_axioms)
            out['lemmas'] = list(converter.lemmas)
        except BaseException as e:   # noqa
            out['trace_error'] = type(e).__name__ + ':' + str(e)[:120]
    return out


def main():
    for line in sys.stdin:
        line = line.strip()
        if not line:
            continue
        req = json.loads(line)
        r = globals()['do_' + req['cmd']](req)
        sys.stdout.write(json.dumps(r, separators=(',', ':')) + '\n')
    sys.stdout.flush()


main()
