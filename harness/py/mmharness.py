"""Drives the Metamath front end (parser, converter, slicer, translator); one JSON answer per request line."""
from __future__ import annotations
import json, os, sys
from proof_generation.metamath.parser import parse_database
from proof_generation.metamath.converter.converter import MetamathConverter
from proof_generation.metamath.ast import ProvableStatement

LETTERS = 'ABCDEFGHIJKLMNOPQRSTUVWXYZ'
PREAMBLE = '''$c #Pattern |- \\imp ( ) $.
$v ph0 ph1 ph2 ph3 $.
ph0-is-pattern $f #Pattern ph0 $.
ph1-is-pattern $f #Pattern ph1 $.
ph2-is-pattern $f #Pattern ph2 $.
ph3-is-pattern $f #Pattern ph3 $.
imp-is-pattern $a #Pattern ( \\imp ph0 ph1 ) $.
proof-rule-prop-1 $a |- ( \\imp ph0 ( \\imp ph1 ph0 ) ) $.
proof-rule-prop-2 $a |- ( \\imp ( \\imp ph0 ( \\imp ph1 ph2 ) ) ( \\imp ( \\imp ph0 ph1 ) ( \\imp ph0 ph2 ) ) ) $.
${ proof-rule-mp.0 $e |- ( \\imp ph0 ph1 ) $. proof-rule-mp.1 $e |- ph0 $. proof-rule-mp $a |- ph1 $. $}
'''
_conv = None


def conv():
    global _conv
    if _conv is None:
        _conv = MetamathConverter(parse_database(PREAMBLE))
    return _conv


def letters(ns):
    return ''.join(LETTERS[n - 1] for n in ns)


def do_mmnum(req):
    """decode many step numbers through the real _import_proof (convert_to_number is local to it)"""
    body = ''.join(letters(w) for w in req['words'])
    # statement without variables: no mandatory hypotheses; no listed labels
    st = parse_database(PREAMBLE + 'g $p |- ( \\imp \\imp \\imp ) $= ( ) ' + body + ' $.').statements[-1]
    try:
        pr = conv()._import_proof(st)
        return {'out': 'ok', 'nums': pr.applied_lemmas}
    except Exception as e:    # noqa
        return {'out': 'raise:' + type(e).__name__, 'nums': []}


def do_mmdecode(req):
    """a $p statement over the given variables, with a label list and a letter string laid out with the given whitespace"""
    vars_ = req['vars']            # variables occurring in the statement, in the order they occur
    term = vars_[0] if len(vars_) == 1 else None
    t = 'ph9'
    if not vars_:
        body_term = '( \\imp \\imp \\imp )'
    else:
        body_term = vars_[-1]
        for x in reversed(vars_[:-1]):
            body_term = f'( \\imp {x} {body_term} )'
    ws = req.get('ws', [' ', ' ', ' '])
    proof = '(' + ws[0] + ws[0].join(req['listed']) + (ws[0] if req['listed'] else '') + ')' + ws[1] + req['layout'].replace('_', ws[2])
    src = PREAMBLE + f'g $p |- {body_term} $= {proof} $.'
    try:
        st = parse_database(src).statements[-1]
        assert isinstance(st, ProvableStatement)
        pr = conv()._import_proof(st)
        n = len(pr.labels)
        return {'out': 'ok', 'labels': [pr.labels[k] for k in range(1, n + 1)] if sorted(pr.labels) == list(range(1, n + 1)) else ['<gap>'],
                'steps': pr.applied_lemmas}
    except Exception as e:   # noqa
        return {'out': 'raise:' + type(e).__name__ + ':' + str(e)[:80], 'labels': [], 'steps': []}


def main():
    for line in sys.stdin:
        line = line.strip()
        if not line:
            continue
        req = json.loads(line)
        r = globals()['do_' + req['cmd']](req)
        sys.stdout.write(json.dumps(r, separators=(',', ':')) + '\n')
    sys.stdout.flush()


main()
