"""Stand-in for the parts of pyk (pyk.kore.syntax, pyk.kllvm) that proof_generation.k.* imports; the real package
is not installed in this environment.  It defines exactly the dataclasses (with the positional field order the
repository pattern-matches on) and nothing else.  Stated assumption of the C20 check."""
from __future__ import annotations
import sys, types
from dataclasses import dataclass, field


def install():
    if 'pyk.kore.syntax' in sys.modules:
        return sys.modules['pyk.kore.syntax']
    import pyk
    kore_pkg = types.ModuleType('pyk.kore')
    syn = types.ModuleType('pyk.kore.syntax')

    @dataclass(frozen=True)
    class Sort:
        pass

    @dataclass(frozen=True)
    class SortVar(Sort):
        name: str

    @dataclass(frozen=True)
    class SortApp(Sort):
        name: str
        sorts: tuple = ()

    @dataclass(frozen=True)
    class Pattern:
        pass

    @dataclass(frozen=True)
    class String(Pattern):
        value: str

    @dataclass(frozen=True)
    class EVar(Pattern):
        name: str
        sort: Sort

    @dataclass(frozen=True)
    class SVar(Pattern):
        name: str
        sort: Sort

    @dataclass(frozen=True)
    class App(Pattern):
        symbol: str
        sorts: tuple = ()
        args: tuple = ()

    @dataclass(frozen=True)
    class Top(Pattern):
        sort: Sort

    @dataclass(frozen=True)
    class Bottom(Pattern):
        sort: Sort

    @dataclass(frozen=True)
    class Not(Pattern):
        sort: Sort
        pattern: Pattern

    @dataclass(frozen=True)
    class And(Pattern):
        sort: Sort
        ops: tuple

    @dataclass(frozen=True)
    class Or(Pattern):
        sort: Sort
        ops: tuple

    @dataclass(frozen=True)
    class Implies(Pattern):
        sort: Sort
        left: Pattern
        right: Pattern

    @dataclass(frozen=True)
    class Iff(Pattern):
        sort: Sort
        left: Pattern
        right: Pattern

    @dataclass(frozen=True)
    class Rewrites(Pattern):
        sort: Sort
        left: Pattern
        right: Pattern

    @dataclass(frozen=True)
    class Next(Pattern):
        sort: Sort
        pattern: Pattern

    @dataclass(frozen=True)
    class In(Pattern):
        op_sort: Sort
        sort: Sort
        left: Pattern
        right: Pattern

    @dataclass(frozen=True)
    class Equals(Pattern):
        op_sort: Sort
        sort: Sort
        left: Pattern
        right: Pattern

    @dataclass(frozen=True)
    class Ceil(Pattern):
        op_sort: Sort
        sort: Sort
        pattern: Pattern

    @dataclass(frozen=True)
    class Floor(Pattern):
        op_sort: Sort
        sort: Sort
        pattern: Pattern

    @dataclass(frozen=True)
    class DV(Pattern):
        sort: Sort
        value: String

    @dataclass(frozen=True)
    class Exists(Pattern):
        sort: Sort
        var: EVar
        pattern: Pattern

    @dataclass(frozen=True)
    class Forall(Pattern):
        sort: Sort
        var: EVar
        pattern: Pattern

    @dataclass(frozen=True)
    class Mu(Pattern):
        var: SVar
        pattern: Pattern

    @dataclass(frozen=True)
    class Nu(Pattern):
        var: SVar
        pattern: Pattern

    @dataclass(frozen=True)
    class Symbol:
        name: str
        vars: tuple = ()

    @dataclass(frozen=True)
    class Import:
        module_name: str
        attrs: tuple = ()

    @dataclass(frozen=True)
    class SortDecl:
        name: str
        vars: tuple = ()
        attrs: tuple = ()
        hooked: bool = False

    @dataclass(frozen=True)
    class SymbolDecl:
        symbol: Symbol
        param_sorts: tuple
        sort: Sort
        attrs: tuple = ()
        hooked: bool = False

    @dataclass(frozen=True)
    class Axiom:
        vars: tuple
        pattern: Pattern
        attrs: tuple = ()

    @dataclass(frozen=True)
    class Module:
        name: str
        sentences: tuple = ()
        attrs: tuple = ()

    @dataclass(frozen=True)
    class Definition:
        modules: tuple = ()
        attrs: tuple = ()

    for k, v in list(locals().items()):
        if isinstance(v, type):
            setattr(syn, k, v)
    kllvm = types.ModuleType('pyk.kllvm')
    load = types.ModuleType('pyk.kllvm.load')
    ast = types.ModuleType('pyk.kllvm.ast')
    conv = types.ModuleType('pyk.kllvm.convert')
    conv.llvm_to_pattern = lambda x: x
    ast.Pattern = object
    kllvm.ast, kllvm.load, kllvm.convert = ast, load, conv
    kore_pkg.syntax = syn
    pyk.kore, pyk.kllvm = kore_pkg, kllvm
    sys.modules.update({'pyk.kore': kore_pkg, 'pyk.kore.syntax': syn, 'pyk.kllvm': kllvm, 'pyk.kllvm.load': load, 'pyk.kllvm.ast': ast,
                        'pyk.kllvm.convert': conv})
    return syn
