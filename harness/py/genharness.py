"""Replays TLC-generated call sequences on the real SerializingInterpreter and traces whole
proof modules; prints one JSON object per request."""
from __future__ import annotations
import json, sys
from bridge import Bridge
import tracing
from proof_generation import pattern as P
from proof_generation.proved import Proved


def to_entry(B, e):
    p = B.to_py(e['p'])
    return Proved(p) if e['k'] == 'prf' else p


def do_call(B, it, c):
    m = c['m']
    T = lambda x: B.to_py(x)
    if m in ('evar', 'svar'):
        return getattr(it, m)(c['n'])
    if m == 'symbol':
        return it.symbol(B.symname(c['n']))
    if m == 'metavar':
        cs = c['cs']
        return it.metavar(c['n'], tuple(P.EVar(x) for x in cs[0]), tuple(P.SVar(x) for x in cs[1]), tuple(P.SVar(x) for x in cs[2]),
                          tuple(P.SVar(x) for x in cs[3]), tuple(P.EVar(x) for x in cs[4]))
    if m in ('implies', 'app'):
        return getattr(it, m)(T(c['a']), T(c['b']))
    if m in ('exists', 'mu'):
        return getattr(it, m)(c['n'], T(c['a']))
    if m in ('esubst', 'ssubst'):
        return getattr(it, m)(c['n'], T(c['a']), T(c['b']))
    if m in ('prop1', 'prop2', 'prop3', 'exists_quantifier', 'into_claim_phase', 'into_proof_phase'):
        return getattr(it, m)()
    if m == 'modus_ponens':
        return it.modus_ponens(Proved(T(c['a'])), Proved(T(c['b'])))
    if m == 'exists_generalization':
        return it.exists_generalization(Proved(T(c['a'])), P.EVar(c['n']))
    if m == 'instantiate':
        return it.instantiate(Proved(T(c['a'])), {kv[0]: T(kv[1]) for kv in c['d']})
    if m == 'instantiate_pattern':
        return it.instantiate_pattern(T(c['a']), {kv[0]: T(kv[1]) for kv in c['d']})
    if m == 'pop':
        return it.pop(to_entry(B, c['a']))
    if m == 'save':
        e = to_entry(B, c['a'])       # named as the Metamath translator names its saves: str(term) (a pattern and its proof share a name)
        return it.save(str(e.conclusion if isinstance(e, Proved) else e), e)
    if m == 'load':
        e = to_entry(B, c['a'])
        return it.load(str(e.conclusion if isinstance(e, Proved) else e), e)
    if m == 'publish_axiom':
        return it.publish_axiom(T(c['a']))
    if m == 'publish_claim':
        return it.publish_claim(T(c['a']))
    if m == 'publish_proof':
        return it.publish_proof(Proved(T(c['a'])))
    raise ValueError(m)


def replay(req):
    B = Bridge()
    it, sinks = tracing.new_serializer(B, req['phase'], [B.to_py(c) for c in req.get('claims', [])])
    for c in req['calls']:
        try:
            do_call(B, it, c)
        except (Exception,):
            break
    return {'events': it._events, 'files': [list(s.getvalue()) for s in sinks]}


def main():
    for line in sys.stdin:
        line = line.strip()
        if not line:
            continue
        req = json.loads(line)
        import contextlib, io
        _guard = contextlib.redirect_stdout(io.StringIO())      # whatever the toolkit prints must not end up in the result stream
        _guard.__enter__()
        if req['cmd'] == 'replay':
            r = replay(req)
        elif req['cmd'] in ('schemas', 'lemma', 'expr', 'taut', 'resolve'):
            import lemmas
            r = lemmas.handle(req)
        else:
            import modules
            r = modules.handle(req)
        _guard.__exit__(None, None, None)
        sys.stdout.write(json.dumps(r, separators=(',', ':')) + '\n')
    sys.stdout.flush()


main()
