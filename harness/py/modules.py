"""Traces whole proof modules (the shipped ones and generated ones) through the tracing serializer,
exactly the way ProofExp.serialize drives them."""
from __future__ import annotations
from bridge import Bridge
import tracing
from proof_generation.claim import Claim
from proof_generation.counting_interpreter import CountingInterpreter
from proof_generation.interpreter import ExecutionPhase
from proof_generation.optimizing_interpreters import MemoizingInterpreter


def shipped(name):
    if name == 'propositional':
        from proof_generation.proofs.propositional import Propositional
        return Propositional()
    if name == 'substitution':
        from proof_generation.proofs.substitution import Substitution
        return Substitution()
    if name == 'small_theory':
        from proof_generation.proofs.small_theory import SmallTheory
        return SmallTheory()
    if name == 'definedness':
        from proof_generation.proofs.definedness import Definedness
        return Definedness()
    if name == 'kore_lemmas':
        from proof_generation.proofs.kore import KoreLemmas
        return KoreLemmas()
    if name == 'tautology':
        from proof_generation.tautology import Tautology
        return Tautology()
    raise ValueError(name)


def declared_axioms(mod):
    out = []
    for sub in mod._submodules:
        out += declared_axioms(sub)
    return out + list(mod._axioms)


def trace_module(mod, optimize, B=None):
    B = B or Bridge()
    claims = [Claim(c) for c in mod._claims]
    sinks = [tracing.Sink(), tracing.Sink(), tracing.Sink()]
    it = tracing.TracingSerializer(phase=ExecutionPhase.Gamma, claims=claims, out=sinks[0], claim_out=sinks[1], proof_out=sinks[2])
    it._tr_init(B, sinks)
    err = None
    try:
        if optimize:
            analyzer = CountingInterpreter(ExecutionPhase.Gamma, [Claim(c) for c in mod._claims])
            mod.execute_full(analyzer)
            mod.execute_full(MemoizingInterpreter(it, analyzer.finalize()))
        else:
            mod.execute_full(it)
    except (AssertionError, ValueError, IndexError, KeyError, TypeError, NotImplementedError, AttributeError) as e:
        err = type(e).__name__ + ': ' + str(e)[:200]
    return {'events': it._events, 'files': [list(s.getvalue()) for s in sinks], 'error': err,
            'final': {'module': err is None, 'axioms': [B.to_json(a) for a in declared_axioms(mod)],
                      'claims': [B.to_json(c) for c in mod._claims], 'rust': 'none'}}


def handle(req):
    if req['cmd'] == 'module':
        return trace_module(shipped(req['name']), req.get('optimize', False))
    if req['cmd'] == 'deser':
        return do_deser(req)
    raise ValueError(req['cmd'])


def do_deser(req):
    """deserialize_instructions(bytes) driving a fresh tracing serializer: which calls does it make?"""
    from proof_generation.deserialize import deserialize_instructions

    class DB(Bridge):       # the deserialiser names symbol id n str(n)
        def symnum(self, name):
            return int(name) if name.isdigit() else super().symnum(name)
    B = DB()
    it, sinks = tracing.new_serializer(B, req['phase'], [B.to_py(c) for c in req.get('claims', [])])
    it._full_always = False
    it._log_args = False
    out = 'ok'
    try:
        deserialize_instructions(bytes(req['bytes']), it)
    except BaseException as e:     # noqa: any exception is "reported as an error"
        out = 'raise:' + type(e).__name__
    idx = {'gamma': 0, 'claim': 1, 'proof': 2}[req['phase']]
    return {'out': out, 'events': it._events, 'rebytes': list(sinks[idx].getvalue()),
            'final': {'len': len(it.stack), 'top': tracing.entry(B, it.stack[-1]) if it.stack else {'k': 'none', 'p': {'t': 'ev', 'i': 0}},
                      'memory': [tracing.entry(B, x) for x in it.memory], 'claims': [B.to_json(c.pattern) for c in it.claims]}}
