"""Traces whole proof modules (the shipped ones and generated ones) through the tracing serializer,
exactly the way ProofExp.serialize drives them."""
from __future__ import annotations
from bridge import Bridge
import tracing
from proof_generation.claim import Claim
from proof_generation.counting_interpreter import CountingInterpreter
from proof_generation.interpreter import ExecutionPhase
from proof_generation.optimizing_interpreters import MemoizingInterpreter


def shipped(name):
    if name == 'propositional':
        from proof_generation.proofs.propositional import Propositional
        return Propositional()
    if name == 'substitution':
        from proof_generation.proofs.substitution import Substitution
        return Substitution()
    if name == 'small_theory':
        from proof_generation.proofs.small_theory import SmallTheory
        return SmallTheory()
    if name == 'definedness':
        from proof_generation.proofs.definedness import Definedness
        return Definedness()
    if name == 'kore_lemmas':
        from proof_generation.proofs.kore import KoreLemmas
        return KoreLemmas()
    if name == 'tautology':
        from proof_generation.tautology import Tautology
        return Tautology()
    raise ValueError(name)


def declared_axioms(mod):
    out = []
    for sub in mod._submodules:
        out += declared_axioms(sub)
    return out + list(mod._axioms)


def trace_module(mod, optimize, B=None):
    B = B or Bridge()
    claims = [Claim(c) for c in mod._claims]
    sinks = [tracing.Sink(), tracing.Sink(), tracing.Sink()]
    it = tracing.TracingSerializer(phase=ExecutionPhase.Gamma, claims=claims, out=sinks[0], claim_out=sinks[1], proof_out=sinks[2])
    it._tr_init(B, sinks)
    err = None
    try:
        if optimize:
            analyzer = CountingInterpreter(ExecutionPhase.Gamma, [Claim(c) for c in mod._claims])
            mod.execute_full(analyzer)
            mod.execute_full(MemoizingInterpreter(it, analyzer.finalize()))
        else:
            mod.execute_full(it)
    except (AssertionError, ValueError, IndexError, KeyError, TypeError, NotImplementedError, AttributeError) as e:
        err = type(e).__name__ + ': ' + str(e)[:200]
    return {'events': it._events, 'files': [list(s.getvalue()) for s in sinks], 'error': err,
            'final': {'module': err is None, 'axioms': [B.to_json(a) for a in declared_axioms(mod)],
                      'claims': [B.to_json(c) for c in mod._claims], 'rust': 'none'}}


def handle(req):
    if req['cmd'] == 'module':
        return trace_module(shipped(req['name']), req.get('optimize', False))
    raise ValueError(req['cmd'])
