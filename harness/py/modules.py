"""Traces whole proof modules (the shipped ones and generated ones) through the tracing serializer,
exactly the way ProofExp.serialize drives them."""
from __future__ import annotations
from bridge import Bridge
import tracing
from proof_generation.claim import Claim
from proof_generation.counting_interpreter import CountingInterpreter
from proof_generation.interpreter import ExecutionPhase
from proof_generation.optimizing_interpreters import MemoizingInterpreter


def shipped(name):
    if name == 'propositional':
        from proof_generation.proofs.propositional import Propositional
        return Propositional()
    if name == 'substitution':
        from proof_generation.proofs.substitution import Substitution
        return Substitution()
    if name == 'small_theory':
        from proof_generation.proofs.small_theory import SmallTheory
        return SmallTheory()
    if name == 'definedness':
        from proof_generation.proofs.definedness import Definedness
        return Definedness()
    if name == 'kore_lemmas':
        from proof_generation.proofs.kore import KoreLemmas
        return KoreLemmas()
    if name == 'tautology':
        from proof_generation.tautology import Tautology
        return Tautology()
    raise ValueError(name)


def declared_axioms(mod):
    out = []
    for sub in mod._submodules:
        out += declared_axioms(sub)
    return out + list(mod._axioms)


def trace_module(mod, optimize, B=None):
    B = B or Bridge()
    claims = [Claim(c) for c in mod._claims]
    sinks = [tracing.Sink(), tracing.Sink(), tracing.Sink()]
    it = tracing.TracingSerializer(phase=ExecutionPhase.Gamma, claims=claims, out=sinks[0], claim_out=sinks[1], proof_out=sinks[2])
    it._tr_init(B, sinks)
    err = None
    try:
        if optimize:
            analyzer = CountingInterpreter(ExecutionPhase.Gamma, [Claim(c) for c in mod._claims])
            mod.execute_full(analyzer)
            mod.execute_full(MemoizingInterpreter(it, analyzer.finalize()))
        else:
            mod.execute_full(it)
    except (Exception,) as e:
        err = type(e).__name__ + ': ' + str(e)[:200]
    return {'events': it._events, 'files': [list(s.getvalue()) for s in sinks], 'error': err,
            'final': {'module': err is None, 'axioms': [B.to_json(a) for a in declared_axioms(mod)],
                      'claims': [B.to_json(c) for c in mod._claims], 'rust': 'none'}}


def handle(req):
    if req['cmd'] == 'module':
        return trace_module(shipped(req['name']), req.get('optimize', False))
    if req['cmd'] == 'deser':
        return do_deser(req)
    if req['cmd'] == 'memo':
        return do_memo(req)
    if req['cmd'] == 'render':
        return do_render(req)
    if req['cmd'] == 'prettybin':
        return do_prettybin(req)
    raise ValueError(req['cmd'])


def do_deser(req):
    """deserialize_instructions(bytes) driving a fresh tracing serializer: which calls does it make?"""
    from proof_generation.deserialize import deserialize_instructions

    class DB(Bridge):       # the deserialiser names symbol id n str(n)
        def symnum(self, name):
            return int(name) if name.isdigit() else super().symnum(name)
    B = DB()
    it, sinks = tracing.new_serializer(B, req['phase'], [B.to_py(c) for c in req.get('claims', [])])
    it._full_always = False
    it._log_args = False
    out = 'ok'
    try:
        deserialize_instructions(bytes(req['bytes']), it)
    except BaseException as e:     # noqa: any exception is "reported as an error"
        out = 'raise:' + type(e).__name__
    idx = {'gamma': 0, 'claim': 1, 'proof': 2}[req['phase']]
    try:
        final = {'len': len(it.stack), 'top': tracing.entry(B, it.stack[-1]) if it.stack else {'k': 'none', 'p': {'t': 'ev', 'i': 0}},
                 'memory': [tracing.entry(B, x) for x in it.memory], 'claims': [B.to_json(c.pattern) for c in it.claims]}
    except Exception:      # noqa: the interpreter state is not even well-typed (e.g. a proof where a pattern belongs): no state to compare
        final = {'len': -1, 'top': {'k': 'none', 'p': {'t': 'ev', 'i': 0}}, 'memory': [], 'claims': []}
    return {'out': out, 'events': it._events, 'rebytes': list(sinks[idx].getvalue()), 'final': final}


# ---------------------------------------------------------------- C19: pretty printing
def do_render(req):
    import string
    import pyharness_notations as PN
    from proof_generation.pattern import PrettyOptions
    B = Bridge()
    allN = PN.all_notations()
    opts = PrettyOptions(notations={n.definition: n for n in allN.values()})
    N = allN[req['label']]
    holes = sorted({int(f) for _, f, _, _ in string.Formatter().parse(N.format_str) if f not in (None, '') and f.isdigit()})
    apps = []
    for args in req['argtuples']:
        pa = [B.to_py(a) for a in args]
        try:
            apps.append({'args': args, 'argstrs': [a.pretty(opts) for a in pa], 'out': N(*pa).pretty(opts), 'ok': True})
        except Exception as e:   # noqa
            apps.append({'args': args, 'argstrs': [], 'out': type(e).__name__, 'ok': False})
            continue
        if N.arity >= 2 and req.get('via', True):
            # the same application reached by instantiating N(phi_20, phi_21, ...) in two steps (later holes first)
            from proof_generation.pattern import MetaVar
            try:
                app = N(*[MetaVar(20 + i) for i in range(N.arity)])
                late = {20 + i: pa[i] for i in range(N.arity) if i % 2 == 1}
                early = {20 + i: pa[i] for i in range(N.arity) if i % 2 == 0}
                app = app.instantiate(late).instantiate(early)
                apps.append({'args': args, 'argstrs': apps[-1]['argstrs'], 'out': app.pretty(opts), 'ok': True})
            except Exception as e:   # noqa
                apps.append({'args': args, 'argstrs': [], 'out': type(e).__name__, 'ok': False})
            # ... and by applying the notation partially (last hole only) and instantiating the open holes afterwards
            try:
                from frozendict import frozendict
                from proof_generation.pattern import Instantiate
                last = N.arity - 1
                app = Instantiate(N.definition, frozendict({last: pa[last]})).instantiate({i: pa[i] for i in range(last)})
                if app == N(*pa):          # only when this really is the same application (the holes are phi_0 .. phi_{n-1})
                    apps.append({'args': args, 'argstrs': apps[-1]['argstrs'], 'out': app.pretty(opts), 'ok': True})
            except Exception as e:   # noqa
                pass
    if N.arity >= 2 and req.get('selfnest'):
        # N(.., N(.., a, b), c) against N(.., a, N(.., b, c)), built here so that the inner application is the very same notation
        a_, b_, c_ = (B.to_py(x) for x in req['selfnest'])
        pre = [a_] * (N.arity - 2)
        for args in (pre + [N(*(pre + [a_, b_])), c_], pre + [a_, N(*(pre + [b_, c_]))]):
            try:
                apps.append({'args': [B.to_json(x) for x in args], 'argstrs': [x.pretty(opts) for x in args], 'out': N(*args).pretty(opts), 'ok': True})
            except Exception as e:   # noqa
                apps.append({'args': [], 'argstrs': [], 'out': type(e).__name__, 'ok': False})
    return {'label': req['label'], 'arity': N.arity, 'definition': B.to_json(N.definition), 'holes': holes, 'format': N.format_str, 'apps': apps}


KW = {'EVar', 'SVar', 'Symbol', 'MetaVar', 'Implies', 'App', 'Exists', 'Mu', 'ESubst', 'SSubst', 'Prop1', 'Prop2', 'Prop3', 'ModusPonens',
      'Quantifier', 'Generalization', 'Instantiate', 'Pop', 'Save', 'Load', 'Publish'}


def split_steps(text):
    """instruction keyword lines of a .pretty-* file (tokenisation only; trusted)"""
    import re
    steps = []
    for line in text.split('\n'):
        if not line or line.startswith('\t'):
            continue
        w = line.split(' ')[0]
        m = re.match(r'^(MetaVar) (\d+)(.*)$', line)
        if m:
            steps.append({'kw': 'MetaVar', 'ops': [int(m.group(2))], 'raw': line})
            continue
        if re.match(r'^(eFresh|sFresh|pos|neg|appctx), len=', line) or (steps and steps[-1]['kw'] == 'MetaVar' and w not in KW):
            steps[-1]['raw'] += ' | ' + line
            continue
        if w not in KW:
            steps.append({'kw': 'Unknown', 'ops': [], 'raw': line})
            continue
        rest = line[len(w):].strip()
        if w == 'Load':
            ops = [int(rest.rsplit('=', 1)[1])] if '=' in rest else [-1]
        elif w in ('ESubst', 'SSubst'):
            ops = [int(rest.split('=')[1])]
        elif w == 'Instantiate':
            ops = [int(x) for x in rest.split(',') if x.strip() != '']
        elif w in ('EVar', 'SVar', 'Exists', 'Mu', 'Generalization'):
            ops = [int(rest)]
        else:
            ops = []          # Symbol <name>: the name is not a number
        steps.append({'kw': w, 'ops': ops, 'raw': line})
    return steps


def mm_skeleton(text, target='goal'):
    """the ProofExp that translate.main builds for a Metamath database (same construction, not trusted: only used to
    obtain the pretty rendering next to the binary one)"""
    from proof_generation.metamath import translate as T
    from proof_generation.metamath.parser import parse_database
    from proof_generation.metamath.converter.converter import MetamathConverter
    from proof_generation.metamath.converter.representation import AxiomWithAntecedents
    from proof_generation.proof import ProofExp
    converter = MetamathConverter(parse_database(text))
    axs = []
    for name in converter.exported_axioms:
        ax = converter.get_axiom_by_name(name)
        axs.append(T.convert_to_implication(ax.antecedents, ax.pattern) if isinstance(ax, AxiomWithAntecedents) else ax.pattern)
    cls = [converter.get_lemma_by_name(n).pattern for n in converter.lemmas]

    class Skel(ProofExp):
        def __init__(self):
            super().__init__(axioms=list(axs), claims=list(cls))

        def execute_proofs_phase(self, interpreter):
            assert interpreter.phase == ExecutionPhase.Proof
            T.exec_proof(converter, target, self, interpreter)
    return Skel()


def do_prettybin(req):
    """serialise the same module in both formats (same optimise setting) through ProofExp.serialize itself"""
    import tempfile, os
    from pathlib import Path
    from proof_generation.proof import OutputFormat
    import lemmas
    B = Bridge()
    out = {'built': False}
    try:
        mk = (lambda: shipped(req['name'])) if 'name' in req else (lambda: mm_skeleton(req['mmtext'])) if 'mmtext' in req else \
            (lambda: lemmas.build_module(Bridge(), req['module']))
        with tempfile.TemporaryDirectory() as d:
            mk().serialize(Path(d) / 'm', OutputFormat.Binary, req['optimize'])
            out['pretty_ok'] = True
            try:
                mk().serialize(Path(d) / 'm', OutputFormat.Pretty, req['optimize'])
            except lemmas.EXC as e:       # the binary files exist, the pretty ones could not be written
                out['pretty_ok'] = False
                out['pretty_error'] = type(e).__name__ + ': ' + str(e)[:150]
            out['phases'] = []
            for ph in ('gamma', 'claim', 'proof'):
                bs = list(open(os.path.join(d, f'm.ml-{ph}'), 'rb').read())
                steps = split_steps(open(os.path.join(d, f'm.pretty-{ph}'), encoding='utf-8').read()) if out['pretty_ok'] else []
                out['phases'].append({'phase': ph, 'bytes': bs, 'steps': [{'kw': s['kw'], 'ops': s['ops']} for s in steps]})
        out['built'] = True
    except lemmas.EXC as e:
        out['error'] = type(e).__name__ + ': ' + str(e)[:150]
    return out


def do_memo(req):
    """pattern(p) through MemoizingInterpreter(S) over a tracing serializer whose memory was pre-populated by real calls"""
    from proof_generation.optimizing_interpreters import MemoizingInterpreter
    B = Bridge()
    it, sinks = tracing.new_serializer(B, 'proof', [])
    for e in req['mem']:            # prelude: build the entry, save it, pop it
        q = B.to_py(e['p'])
        it.pattern(q)
        it.save('pre', it.stack[-1])
        it.pop(it.stack[-1])
    npre = len(it._events)
    out = 'ok'
    try:
        MemoizingInterpreter(it, {B.to_py(s) for s in req['S']}).pattern(B.to_py(req['p']))
    except (Exception,) as e:
        out = 'raise:' + type(e).__name__
    return {'out': out, 'events': it._events, 'npre': npre, 'methods': [e['m'] for e in it._events[npre:]]}
