"""C20: builds language definitions and execution traces out of JSON descriptions (through the pyk shim), drives
LanguageSemantics.from_kore_definition / convert_pattern / convert_substitutions and ExecutionProofExp.rewrite_event,
and records what they did."""
from __future__ import annotations
import json, sys
import pykshim
K = pykshim.install()
from bridge import Bridge                                                    # noqa: E402
import modules                                                               # noqa: E402
from proof_generation.k.kore_convertion.language_semantics import LanguageSemantics   # noqa: E402
from proof_generation.k.execution_proof_generation import ExecutionProofExp           # noqa: E402
from proof_generation.k.kore_convertion.rewrite_steps import RewriteStepExpression    # noqa: E402
import proof_generation.proofs.kore as kl                                    # noqa: E402

EXC = (Exception,)


def ksort(s):
    return K.SortVar(s[1:]) if s.startswith('$') else K.SortApp(s)


def kterm(t):
    k = t['k']
    if k == 'app':
        return K.App(t['sym'], tuple(ksort(s) for s in t.get('sorts', [])), tuple(kterm(a) for a in t.get('args', [])))
    if k == 'evar':
        return K.EVar(t['name'], ksort(t['sort']))
    if k == 'top':
        return K.Top(ksort(t['sort']))
    if k == 'dv':
        return K.DV(ksort(t['sort']), K.String(t['value']))
    if k == 'and':
        return K.And(ksort(t['sort']), tuple(kterm(a) for a in t['ops']))
    if k == 'not':
        return K.Not(ksort(t['sort']), kterm(t['arg']))
    if k == 'rw':
        return K.Rewrites(ksort(t['sort']), kterm(t['l']), kterm(t['r']))
    raise ValueError(k)


def ksubst(t, sg):
    """substitution on the JSON description of kore terms (variables by name)"""
    k = t['k']
    if k == 'evar':
        return sg.get(t['name'], t)
    out = dict(t)
    for f in ('args', 'ops'):
        if f in t:
            out[f] = [ksubst(a, sg) for a in t[f]]
    for f in ('l', 'r', 'arg'):
        if f in t:
            out[f] = ksubst(t[f], sg)
    return out


def definition(d):
    sents = []
    for s in d['sorts']:
        sents.append(K.SortDecl(s))
    for sy in d['symbols']:
        attrs = tuple(K.App(a) for a in sy.get('attrs', []))
        sents.append(K.SymbolDecl(K.Symbol(sy['name'], tuple(K.SortVar(v) for v in sy.get('params', []))),
                                  tuple(ksort(s) for s in sy.get('inputs', [])), ksort(sy['sort']), attrs))
    for k in range(d.get('ordinal_offset', 0)):
        # axioms that are neither rewrite nor equational rules (here: marked as simplifications) still take an ordinal
        so0 = K.SortApp(d['sorts'][0])
        sents.append(K.Axiom((), K.Top(so0) if k % 2 == 0 else K.Not(so0, K.Top(so0)), (K.App('simplification'),)))
    for r in d['rules']:
        so = ksort(r['sort'])
        svars = (K.SortVar(r['sort'][1:]),) if r['sort'].startswith('$') else ()      # axiom{R} \\rewrites{R}(...)
        sents.append(K.Axiom(svars, K.Rewrites(so, K.And(so, (kterm(r['l']), K.Top(so))), K.And(so, (kterm(r['r']), K.Top(so))))))
    return K.Definition((K.Module(d.get('name', 'M'), tuple(sents)),))


def do_ktrace(req):
    B = Bridge()
    out = {'out': 'ok', 'steps': [], 'convs': []}
    try:
        sem = LanguageSemantics.from_kore_definition(definition(req['definition']))
    except EXC as e:
        out['out'] = 'raise:' + type(e).__name__ + ':' + str(e)[:100]
        return out
    out['rewrites_def'] = B.to_json(kl.kore_rewrites.definition)
    # conversion experiments: rule vs substituted rule
    for i, r in enumerate(req['definition']['rules']):
        try:
            rule = sem.get_axiom(i + req['definition'].get('ordinal_offset', 0))
            scope = sem._cached_axiom_scopes[rule.ordinal]
        except EXC as e:       # the rule with that ordinal is not there: a refused conversion (clause conv-refused)
            out['convs'].append({'ordinal': i, 'rule': {'t': 'ev', 'i': 0}, 'varmap': [], 'subst': [], 'conv_substituted': {'t': 'ev', 'i': 0}, 'has': False,
                                 'error': type(e).__name__})
            continue
        cv = {'ordinal': rule.ordinal, 'rule': B.to_json(rule.pattern), 'varmap': [[k, v.name] for k, v in scope._metavars.items()],
              'subst': [], 'conv_substituted': B.to_json(rule.pattern), 'has': False, 'error': ''}
        sg = (req.get('rule_substs') or {}).get(str(i))
        if sg is not None:
            try:
                subst = sem.convert_substitutions({k: kterm(v) for k, v in sg.items()}, rule.ordinal)
                whole = {'k': 'rw', 'sort': r['sort'], 'l': ksubst(r['l'], sg), 'r': ksubst(r['r'], sg)}
                cv['subst'] = [[k, B.to_json(v)] for k, v in subst.items()]
                cv['conv_substituted'] = B.to_json(sem.convert_pattern(kterm(whole)))
                cv['has'] = True
            except EXC as e:
                cv['error'] = type(e).__name__
        out['convs'].append(cv)
    init = sem.convert_pattern(kterm(req['init']))
    out['init'] = B.to_json(init)
    pe = ExecutionProofExp(sem, init)
    for st in req['steps']:
        rec = {'ordinal': st['rule'], 'out': 'ok'}
        try:
            rule = sem.get_axiom(st['rule'])
            subst = sem.convert_substitutions({k: kterm(v) for k, v in st['subst'].items()}, st['rule'])
            rec['rule'] = B.to_json(rule.pattern)
            rec['subst'] = [[k, B.to_json(v)] for k, v in subst.items()]
            # the same substitution applied at the Kore level, then converted (ground terms: no variable numbering involved)
            r = req['definition']['rules'][st['rule'] - req['definition'].get('ordinal_offset', 0)]
            so = r['sort']
            whole = {'k': 'rw', 'sort': so, 'l': ksubst(r['l'], st['subst']), 'r': ksubst(r['r'], st['subst'])}
            rec['conv_substituted'] = B.to_json(sem.convert_pattern(kterm(whole)))
            pe.rewrite_event(rule, subst)
        except EXC as e:
            rec['out'] = 'raise:' + type(e).__name__
            rec.setdefault('rule', {'t': 'ev', 'i': 0}); rec.setdefault('subst', []); rec.setdefault('conv_substituted', {'t': 'ev', 'i': 0})
        rec['claims_after'] = [B.to_json(c) for c in pe._claims]
        rec['axioms_after'] = [B.to_json(a) for a in pe._axioms]
        rec['cur_after'] = B.to_json(pe.current_configuration)
        rec['nproofs_after'] = len(pe._proof_expressions)
        out['steps'].append(rec)
    if req.get('trace'):
        out['trace'] = modules.trace_module(pe, req.get('optimize', False), B)
    # the same trace through ExecutionProofExp.from_proof_hints (configuration events as the trace reports them;
    # 'stale' replaces the reported post-configurations by other terms - they must not influence the result)
    hints = []
    try:
        cur = req['init']
        for st, rep in zip(req['steps'], req.get('reported', [None] * len(req['steps']))):
            rule = sem.get_axiom(st['rule'])
            subst = sem.convert_substitutions({k: kterm(v) for k, v in st['subst'].items()}, st['rule'])
            r = req['definition']['rules'][st['rule'] - req['definition'].get('ordinal_offset', 0)]
            nxt = rep if rep is not None else ksubst(r['r'], st['subst'])
            hints.append(RewriteStepExpression(sem.convert_pattern(kterm(cur)), sem.convert_pattern(kterm(nxt)), rule, subst))
            cur = nxt
        pe2 = ExecutionProofExp.from_proof_hints(iter(hints), sem)
        out['hints_out'] = 'ok'
        out['hints_claims'] = [B.to_json(c) for c in pe2._claims]
    except EXC as e:
        out['hints_out'] = 'raise:' + type(e).__name__
        out['hints_claims'] = []
    # ... and through the real trace reader get_proof_hints: an LLVMRewriteTrace with the rule events, the (truthful)
    # configurations after them, and function / hook events interleaved as the request says
    try:
        from proof_generation.llvm_proof_hint import LLVMRewriteTrace, LLVMRuleEvent, LLVMFunctionEvent, LLVMHookEvent
        from proof_generation.k.kore_convertion.rewrite_steps import get_proof_hints
        evs = []
        for k, st in enumerate(req['steps']):
            for kind in (req.get('noise') or [[]] * len(req['steps']))[k]:
                evs.append(LLVMFunctionEvent('f', '0:0', ()) if kind == 'fun' else LLVMHookEvent('h', '0:0', (), kterm(req['init'])))
            r = req['definition']['rules'][st['rule'] - req['definition'].get('ordinal_offset', 0)]
            evs.append(LLVMRuleEvent(st['rule'], tuple((k2, kterm(v)) for k2, v in st['subst'].items())))
            evs.append(kterm(ksubst(r['r'], st['subst'])))
        tr = LLVMRewriteTrace((), kterm(req['init']), tuple(evs))
        pe3 = ExecutionProofExp.from_proof_hints(get_proof_hints(tr, sem), sem)
        out['llvm_out'] = 'ok'
        out['llvm_claims'] = [B.to_json(c) for c in pe3._claims]
    except EXC as e:
        out['llvm_out'] = 'raise:' + type(e).__name__
        out['llvm_claims'] = []
    return out


def main():
    for line in sys.stdin:
        line = line.strip()
        if not line:
            continue
        req = json.loads(line)
        import contextlib, io
        with contextlib.redirect_stdout(io.StringIO()):      # whatever the toolkit prints must not end up in the result stream
            r = do_ktrace(req)
        sys.stdout.write(json.dumps(r, separators=(',', ':')) + '\n')
    sys.stdout.flush()


main()
