"""JSON term  <->  proof_generation.pattern.Pattern.  Runs inside /venv/bin/python with
PYTHONPATH=<repo>/generation/src.  Symbols: JSON symbols are numbers; the Python name of
symbol n is 's<n>' unless a symbol table says otherwise."""
from __future__ import annotations
from frozendict import frozendict
from proof_generation import pattern as P


class Bridge:
    def __init__(self):
        self.sym_of_name: dict[str, int] = {}
        self.name_of_sym: dict[int, str] = {}

    def symname(self, i: int) -> str:
        return self.name_of_sym.get(i, f's{i}')

    def symnum(self, name: str) -> int:
        if name in self.sym_of_name:
            return self.sym_of_name[name]
        if name.startswith('s') and name[1:].isdigit() and int(name[1:]) not in self.name_of_sym:
            return int(name[1:])
        n = 1000 + len(self.sym_of_name)
        self.sym_of_name[name] = n
        self.name_of_sym[n] = name
        return n

    def to_py(self, t: dict) -> P.Pattern:
        k = t['t']
        if k == 'ev':
            return P.EVar(t['i'])
        if k == 'sv':
            return P.SVar(t['i'])
        if k == 'sym':
            return P.Symbol(self.symname(t['i']))
        if k == 'imp':
            return P.Implies(self.to_py(t['l']), self.to_py(t['r']))
        if k == 'app':
            return P.App(self.to_py(t['l']), self.to_py(t['r']))
        if k == 'ex':
            return P.Exists(t['v'], self.to_py(t['p']))
        if k == 'mu':
            return P.Mu(t['v'], self.to_py(t['p']))
        if k == 'mv':
            return P.MetaVar(t['i'], tuple(P.EVar(x) for x in t['ef']), tuple(P.SVar(x) for x in t['sf']),
                             tuple(P.SVar(x) for x in t['pos']), tuple(P.SVar(x) for x in t['neg']),
                             tuple(P.EVar(x) for x in t['hol']))
        if k == 'es':
            return P.ESubst(self.to_py(t['p']), P.EVar(t['v']), self.to_py(t['g']))
        if k == 'ss':
            return P.SSubst(self.to_py(t['p']), P.SVar(t['v']), self.to_py(t['g']))
        if k == 'inst':
            # notation definitions are SHARED objects in real use (Notation.definition): keep one object per definition
            import json as _json
            reg = self.__dict__.setdefault('_defs', {})
            key = _json.dumps(t['p'], sort_keys=True)
            d = reg.get(key)
            if d is None:
                d = reg[key] = self.to_py(t['p'])
            return P.Instantiate(d, frozendict({kv[0]: self.to_py(kv[1]) for kv in t['d']}))
        raise ValueError(k)

    def to_json(self, p) -> dict:
        """memoised per object identity (proof terms are DAGs with massive sharing)"""
        memo = self.__dict__.setdefault('_memo', {})
        hit = memo.get(id(p))
        if hit is not None and hit[0] is p:
            return hit[1]
        r = self._to_json(p)
        if len(memo) > 2_000_000:
            memo.clear()
        memo[id(p)] = (p, r)
        return r

    def _to_json(self, p) -> dict:
        if type(p) is P.EVar:
            return {'t': 'ev', 'i': p.name}
        if type(p) is P.SVar:
            return {'t': 'sv', 'i': p.name}
        if type(p) is P.Symbol:
            return {'t': 'sym', 'i': self.symnum(p.name)}
        if type(p) is P.Implies:
            return {'t': 'imp', 'l': self.to_json(p.left), 'r': self.to_json(p.right)}
        if type(p) is P.App:
            return {'t': 'app', 'l': self.to_json(p.left), 'r': self.to_json(p.right)}
        if type(p) is P.Exists:
            return {'t': 'ex', 'v': p.var, 'p': self.to_json(p.subpattern)}
        if type(p) is P.Mu:
            return {'t': 'mu', 'v': p.var, 'p': self.to_json(p.subpattern)}
        if type(p) is P.MetaVar:
            nm = lambda v: getattr(v, 'name', v)      # (the deserialiser builds constraint tuples of plain ints)
            return {'t': 'mv', 'i': p.name, 'ef': [nm(v) for v in p.e_fresh], 'sf': [nm(v) for v in p.s_fresh],
                    'pos': [nm(v) for v in p.positive], 'neg': [nm(v) for v in p.negative],
                    'hol': [nm(v) for v in p.app_ctx_holes]}
        if type(p) is P.ESubst:
            return {'t': 'es', 'p': self.to_json(p.pattern), 'v': p.var.name, 'g': self.to_json(p.plug)}
        if type(p) is P.SSubst:
            return {'t': 'ss', 'p': self.to_json(p.pattern), 'v': p.var.name, 'g': self.to_json(p.plug)}
        if type(p) is P.Instantiate:
            return {'t': 'inst', 'p': self.to_json(p.pattern), 'd': [[k, self.to_json(v)] for k, v in p.inst.items()]}
        raise ValueError(f'not a pattern: {type(p)}')
