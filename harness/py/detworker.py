"""One worker process of the determinism experiment (started with a given PYTHONHASHSEED): serialises the requested
inputs one after another IN THIS PROCESS through the toolkit's own entry points (ProofExp.serialize / translate.main)
and reports the SHA-256 of every output file."""
from __future__ import annotations
import contextlib, hashlib, io, json, os, sys, tempfile
from pathlib import Path


def sha_dir(d, stem, fmt):
    suf = ('ml-gamma', 'ml-claim', 'ml-proof') if fmt == 'binary' else ('pretty-gamma', 'pretty-claim', 'pretty-proof')
    return '|'.join(hashlib.sha256((Path(d) / f'{stem}.{s}').read_bytes()).hexdigest()[:32] for s in suf)


_OBJS = {}      # one module OBJECT per module of the pool: serialising it again (in any format / optimise setting) reuses the object,
                # as a caller holding a ProofExp would - the output must not depend on that


def module_object(inp):
    key = json.dumps([inp['kind'], inp.get('name'), inp.get('module')], sort_keys=True)
    if key not in _OBJS:
        if inp['kind'] == 'module':
            import modules
            _OBJS[key] = modules.shipped(inp['name'])
        else:
            import lemmas
            from bridge import Bridge
            _OBJS[key] = lemmas.build_module(Bridge(), inp['module'])
    return _OBJS[key]


def serialise(inp):
    from proof_generation.proof import OutputFormat
    with tempfile.TemporaryDirectory() as d:
        try:
            if inp['kind'] == 'module':
                mod = module_object(inp)
                mod.serialize(Path(d) / 'm', OutputFormat.Binary if inp['fmt'] == 'binary' else OutputFormat.Pretty, inp['opt'])
                return sha_dir(d, 'm', inp['fmt'])
            if inp['kind'] == 'recipe':
                mod = module_object(inp)
                mod.serialize(Path(d) / 'm', OutputFormat.Binary if inp['fmt'] == 'binary' else OutputFormat.Pretty, inp['opt'])
                return sha_dir(d, 'm', inp['fmt'])
            if inp['kind'] == 'mm':
                from proof_generation.metamath import translate as T
                src = Path(d) / 'db.mm'
                src.write_text(inp['text'])
                argv = sys.argv
                try:
                    sys.argv = ['translate', str(src), str(Path(d) / 'out'), 'goal']
                    with contextlib.redirect_stdout(io.StringIO()):
                        T.main()
                finally:
                    sys.argv = argv
                return sha_dir(Path(d) / 'out', 'db', 'binary')
        except BaseException as e:    # noqa: a failure is an observation too (it must then fail the same way everywhere)
            return 'raise:' + type(e).__name__
    return 'raise:unknown-kind'


def main():
    job = json.loads(sys.stdin.read())
    pool = job['pool']
    out = []
    for k, i in enumerate(job['inputs']):
        out.append({'input': i, 'hist_len': k, 'sha': serialise(pool[i - 1])})
    print(json.dumps(out))


main()
