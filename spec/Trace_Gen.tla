------------------------------ MODULE Trace_Gen ------------------------------
(***************************************************************************)
(* Code -> spec validation of traces recorded from the real                *)
(* SerializingInterpreter (tracing subclass, one event per primitive call).*)
(* The specification machine (MLMachine) executes, in lock-step, the bytes *)
(* each call emitted; after every call the simulation relation between the *)
(* tracker's observable state (top of stack, length, appended memory       *)
(* entries, claims) and the machine state is evaluated.  Clauses:          *)
(*   symtab          (C03) symbol numbering not injective / not first-use  *)
(*   machine-rejects (C04) emitted bytes do not run on the machine         *)
(*   stack-length, top, memory, claims (C04)  Rel broken                   *)
(*   bytes-on-raise  (C04) a call that raised has emitted bytes            *)
(* and at the end of a module trace:                                       *)
(*   not-accepted    (C02) machine has claims left / the Rust checker      *)
(*                         rejected the emitted files                      *)
(*   journal-axioms, journal-claims (C03) published theory / claims differ *)
(*                         from the declaration                            *)
(* Verdicts are total: the first failing clause of an event is printed and *)
(* the run goes on (the machine follows its own state); only after         *)
(* machine-rejects the rest of that trace cannot be examined (UNEXAMINED).  *)
(***************************************************************************)
EXTENDS Generator, Json, IOUtils, TLCExt
Traces == ndJsonDeserialize(IOEnv.CASES)
VARIABLES tid, l, mst, ret, syms, dead, mok, tcl,    \* tcl: the tracker's claim list as last logged
          rst, tainted   \* rst: which slots of the TRACKER stack are retained published terms; tainted: one was consumed
vars == <<tid, l, mst, ret, syms, dead, mok, tcl, rst, tainted>>

Init == tid = 0 /\ l = 0 /\ mst = InitState("gamma") /\ ret = 0 /\ syms = <<>> /\ dead = FALSE /\ mok = TRUE /\ tcl = <<>> /\ rst = <<>> /\ tainted = FALSE

ExpSeq(s) == [k \in 1..Len(s) |-> Expand(s[k])]
RECURSIVE SymsOf(_)
SymsOf(p) == CASE p.t = "sym" -> {p.i}
               [] p.t \in {"imp", "app"} -> SymsOf(p.l) \cup SymsOf(p.r)
               [] p.t \in {"ex", "mu"} -> SymsOf(p.p)
               [] p.t \in {"es", "ss"} -> SymsOf(p.p) \cup SymsOf(p.g)
               [] OTHER -> {}
Known(p, sy) == SymsOf(p) \subseteq {sy[k] : k \in 1..Len(sy)}
ImgT(p, sy) == LET e == Expand(p) IN IF HasAbort(e) \/ ~Known(e, sy) THEN Abort ELSE RenameSym(e, sy)
ImgE(e, sy) == [k |-> e.k, p |-> ImgT(e.p, sy)]

Start ==
  /\ tid = 0
  /\ \E t \in 1..Len(Traces) :
       /\ tid' = t /\ l' = 1 /\ ret' = 0 /\ syms' = <<>> /\ dead' = FALSE /\ mok' = TRUE /\ tcl' = <<>> /\ rst' = <<>> /\ tainted' = FALSE
       /\ mst' = [InitState(Traces[t].phase) EXCEPT
                    !.claims = IF Traces[t].phase = "proof" THEN Reverse(ExpSeq(Traces[t].claims)) ELSE <<>>]

IsPub(m) == m \in {"publish_axiom", "publish_claim", "publish_proof"}
IsSw(m)  == m \in {"into_claim_phase", "into_proof_phase"}
\* extend the symbol table by the pairs logged with this event: ids must be assigned 0,1,2.. in first-use order
RECURSIVE ExtSyms(_, _)
ExtSyms(sy, pairs) ==
  IF pairs = <<>> THEN [ok |-> TRUE, sy |-> sy]
  ELSE LET b == Head(pairs)[1]  id == Head(pairs)[2] IN
       IF id # Len(sy) \/ (\E k \in 1..Len(sy) : sy[k] = b) THEN [ok |-> FALSE, sy |-> sy]
       ELSE ExtSyms(Append(sy, b), Tail(pairs))

\* why did the machine reject?  (names the class of a machine-rejects observation)
Reason(ms, bs, r) ==
  LET d == Decode(bs, r.at) IN
  IF ~d.ok THEN "undecodable" ELSE
  LET st == r.st  S == st.stack  n == Len(S)  op == d.ins.op
      IsP(k) == n > k /\ S[n - k].k = "pat" IN
  IF op = "Mu" /\ IsP(0) THEN "mu-not-positive"
  ELSE IF op \in {"ESubst", "SSubst"} /\ IsP(0) /\ IsP(1) THEN "subst-illformed"
  ELSE IF op = "MetaVar" THEN "metavar-illformed"
  ELSE IF op = "Instantiate" /\ n >= d.ins.n + 1 /\ (\A k \in 1..d.ins.n : IsP(k)) THEN "instantiate-constraint-or-capture"
  ELSE "other"

\* how many tracker stack slots a call consumes / whether it pushes a fresh one (PyPublishKeepsTop bookkeeping)
Pops(e) == CASE e.m \in {"implies", "app", "esubst", "ssubst", "modus_ponens"} -> 2
             [] e.m \in {"exists", "mu", "exists_generalization", "pop"} -> 1
             [] e.m \in {"instantiate", "instantiate_pattern"} -> (IF Len(e.bytes) >= 2 THEN e.bytes[2] + 1 ELSE 1)
             [] OTHER -> 0
ReadsTop(e) == e.m \in {"save", "publish_axiom", "publish_claim", "publish_proof"}
Pushes(e) == e.m \notin {"pop", "save", "publish_axiom", "publish_claim", "publish_proof", "into_claim_phase", "into_proof_phase"}
ConsumesRetained(e, rs) ==
  LET n == Len(rs)  k == Pops(e) IN
  \/ \E j \in 1..k : j <= n /\ rs[n + 1 - j]
  \/ ReadsTop(e) /\ n > 0 /\ rs[n]
NextRst(e, rs) ==
  IF IsSw(e.m) THEN <<>>
  ELSE LET n == Len(rs)  k == IF Pops(e) <= n THEN Pops(e) ELSE n
           base == SubSeq(rs, 1, n - k) IN
       IF IsPub(e.m) THEN (IF n > 0 THEN [rs EXCEPT ![n] = TRUE] ELSE rs)
       ELSE IF Pushes(e) THEN Append(base, FALSE) ELSE base

Event ==
  /\ tid > 0 /\ l <= Len(Traces[tid].events) /\ ~dead
  /\ LET e == Traces[tid].events[l]
         sx == ExtSyms(syms, e.syms)
         m0 == IF e.out # "ok" THEN [ok |-> TRUE, st |-> mst]
               ELSE IF IsSw(e.m) THEN [ok |-> TRUE, st |-> NextPhase(mst)]
               ELSE RunPhase(e.bytes, mst)
         ret2 == IF IsSw(e.m) THEN 0 ELSE IF IsPub(e.m) /\ e.out = "ok" THEN ret + 1 ELSE ret
         ms == m0.st
         nm == Len(ms.memory) - Len(mst.memory)
         tc == IF e.cc THEN e.claims ELSE tcl
         rst2 == IF e.out = "ok" THEN NextRst(e, rst) ELSE rst
         TopRetained == Len(rst2) > 0 /\ rst2[Len(rst2)]        \* the tracker's top slot is a published term the machine already consumed
         clause ==
           IF e.out # "ok" THEN (IF e.bytes # <<>> THEN "bytes-on-raise" ELSE "")
           ELSE IF ~sx.ok THEN "symtab"
           ELSE IF ~m0.ok THEN "machine-rejects"
           ELSE IF e.len # Len(ms.stack) + ret2 THEN "stack-length"
           ELSE IF Len(ms.stack) > 0 /\ ~TopRetained /\ e.top.k # "skip" /\ ImgE(e.top, sx.sy) # ms.stack[Len(ms.stack)] THEN "top"
           ELSE IF e.memlen # Len(ms.memory) \/ Len(e.mem) # nm THEN "memory"
           ELSE IF \E k \in 1..nm : ImgE(e.mem[k], sx.sy) # ms.memory[Len(mst.memory) + k] THEN "memory"
           ELSE IF ms.phase = "proof" /\ [k \in 1..Len(tc) |-> ImgT(tc[k], sx.sy)] # Reverse(ms.claims) THEN "claims"
           ELSE ""
         taint2 == tainted \/ (e.out = "ok" /\ ConsumesRetained(e, rst))
         reason == IF clause = "machine-rejects" /\ ~taint2 THEN Reason(mst, e.bytes, m0)
                   ELSE IF clause # "" /\ taint2 THEN "retained-entry-consumed" ELSE "-"
     IN /\ IF clause = "" THEN TRUE ELSE PrintT(<<"FAIL", tid, l, clause, reason>>)
        /\ mst' = ms /\ ret' = ret2 /\ syms' = sx.sy
        /\ dead' = (e.out = "ok" /\ ~m0.ok)
        /\ mok' = (mok /\ m0.ok)
        /\ l' = l + 1 /\ tid' = tid /\ tcl' = tc
        /\ tainted' = taint2 /\ rst' = IF e.out = "ok" THEN NextRst(e, rst) ELSE rst

\* the axioms a module declares, computed from its STRUCTURE (decl = [imports, axioms, raw]): imported modules first, in
\* import order, recursively; then the module's own axioms (add_axiom skips an axiom equal to an earlier own one unless the
\* list was assigned directly)
RECURSIVE DeclaredAx(_), DeclaredImports(_), DedupAx(_, _)
DedupAx(axs, acc) == IF axs = <<>> THEN acc
                     ELSE DedupAx(Tail(axs), IF \E k \in 1..Len(acc) : Expand(acc[k]) = Expand(Head(axs)) THEN acc ELSE Append(acc, Head(axs)))
DeclaredImports(ms) == IF ms = <<>> THEN <<>> ELSE DeclaredAx(Head(ms)) \o DeclaredImports(Tail(ms))
DeclaredAx(d) == DeclaredImports(d.imports) \o (IF d.raw THEN d.axioms ELSE DedupAx(d.axioms, <<>>))

\* end of trace: module-level clauses (only for traces that carry a final record)
Finish ==
  /\ tid > 0 /\ (IF dead THEN TRUE ELSE l = Len(Traces[tid].events) + 1) /\ l <= Len(Traces[tid].events) + 1
  /\ LET tr == Traces[tid]
         unex == Len(tr.events) + 1 - l
         ms_claims_left == mst.phase # "proof" \/ mst.claims # <<>>
         \* the toolkit refused this module at run time: not a generated proof - unless the SAME module ran to the end under
         \* the other optimise setting (final.peer = "ok"): then one of the two interpreter stacks is wrong
         c2 == IF ~tr.final.module THEN (IF "peer" \in DOMAIN tr.final /\ tr.final.peer = "ok" THEN "optimise-disagree" ELSE "")
               ELSE IF dead \/ ~mok \/ ms_claims_left THEN "not-accepted"
               ELSE IF tr.final.rust # "ok" THEN "not-accepted"
               ELSE ""
         declared == IF tr.final.hasdecl THEN DeclaredAx(tr.final.decl) ELSE tr.final.axioms
         ax == [k \in 1..Len(declared) |-> ImgT(declared[k], syms)]
         cl == [k \in 1..Len(tr.final.claims) |-> ImgT(tr.final.claims[k], syms)]
         c3 == IF ~tr.final.module \/ dead THEN ""
               ELSE IF mst.journal.axioms # ax THEN "journal-axioms"
               ELSE IF mst.journal.claims # Reverse(cl) THEN "journal-claims"
               ELSE IF mst.journal.proved # cl THEN "journal-proved"
               ELSE ""
     IN /\ IF unex > 0 THEN PrintT(<<"UNEXAMINED", tid, unex>>) ELSE TRUE
        /\ IF c2 = "" THEN TRUE ELSE PrintT(<<"FAIL", tid, l, c2, "-">>)
        /\ IF c3 = "" THEN TRUE ELSE PrintT(<<"FAIL", tid, l, c3, "-">>)
        /\ PrintT(<<"DONE", tid, l - 1>>)
  /\ l' = Len(Traces[tid].events) + 2
  /\ UNCHANGED <<tid, mst, ret, syms, dead, mok, tcl, rst, tainted>>

Next == Start \/ Event \/ Finish
Spec == Init /\ [][Next]_vars
=============================================================================
