---------------------------- MODULE TraceBlocks ----------------------------
(***************************************************************************)
(* Skeleton shared by the trace specifications that validate INDEPENDENT   *)
(* recorded cases (one implementation call each).  The cases are split in  *)
(* blocks; each block is one TLC state so that the workers share them.     *)
(* Verdicts are total: Check(i) returns "" when case i conforms and the    *)
(* name of the failing clause otherwise; a failure is printed and the run  *)
(* goes on.  Each finished block prints DONE so that the runner can tell   *)
(* that every recorded case has been examined.                             *)
(***************************************************************************)
EXTENDS Naturals, TLC
CONSTANTS NCases, BlockSize, Check(_)
VARIABLE blk
NBlocks == (NCases + BlockSize - 1) \div BlockSize
Lo(b) == (b - 1) * BlockSize + 1
Hi(b) == IF b * BlockSize < NCases THEN b * BlockSize ELSE NCases
Examine(i) == LET c == Check(i) IN IF c = "" THEN TRUE ELSE PrintT(<<"FAIL", i, c>>)
Init == blk = 0
Next == \/ /\ blk = 0
           /\ blk' \in 1..NBlocks
        \/ /\ blk > 0 /\ blk <= NBlocks
           /\ \A i \in Lo(blk)..Hi(blk) : Examine(i)
           /\ PrintT(<<"DONE", blk, Hi(blk) - Lo(blk) + 1>>)
           /\ blk' = blk + NBlocks
Spec == Init /\ [][Next]_blk
=============================================================================
