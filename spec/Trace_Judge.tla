----------------------------- MODULE Trace_Judge -----------------------------
(***************************************************************************)
(* C06.  Freshness / positivity judgements.                                *)
(*                                                                         *)
(* GroundTruth(fn, p, x): the judgement is TRUE of every concrete pattern  *)
(* obtained from the meta-pattern p by replacing its metavariables with    *)
(* members of JudgeU that respect the constraint lists of each occurrence  *)
(* and performing the pending substitutions (textbook, capture-avoiding;   *)
(* instances on which a substitution is undefined are not instances).      *)
(*                                                                         *)
(* Mode "spec": the document's rules (MLCore!EFresh ...) are themselves    *)
(* checked against GroundTruth on the closed universe U2S (a theorem of    *)
(* the specification, checked exhaustively).                               *)
(* Mode "trace": recorded calls of the implementations.  Clauses:          *)
(*   unsound  : implementation answered TRUE but GroundTruth is FALSE      *)
(*   notation : a pattern and its expansion got different answers (Python) *)
(*   raised   : a judgement raised on a well-formed input                  *)
(*   doc      : (Rust, reported under C05) answer differs from the         *)
(*              document's rule                                            *)
(* An implementation that is MORE conservative than GroundTruth conforms.  *)
(***************************************************************************)
EXTENDS MLSemantics, MLUniverse, Json, IOUtils, TLCExt, SequencesExt
CONSTANTS BlockSize, Mode
VARIABLE blk

JudgeU == {EV(0), EV(1), SV(0), SV(1), Sym(0), Imp(SV(0), Bot), Imp(SV(1), Bot),
           Ex(0, EV(1)), Mu(1, Imp(SV(0), SV(1))), App(EV(0), SV(1))}

Holds(fn, c, x) ==
  CASE fn = "e_fresh"  -> x \notin FVe(c)
    [] fn = "s_fresh"  -> x \notin FVs(c)
    [] fn = "positive" -> CPos(c, x)
    [] fn = "negative" -> CNeg(c, x)
GroundTruth(fn, p, x) ==
  \A th \in Thetas(p, JudgeU) :
     Admissible(p, th) => LET c == CInst(p, th) IN IF HasAbort(c) THEN TRUE ELSE Holds(fn, c, x)
Doc(fn, p, x) ==
  CASE fn = "e_fresh"  -> EFresh(p, x)
    [] fn = "s_fresh"  -> SFresh(p, x)
    [] fn = "positive" -> Pos(p, x)
    [] fn = "negative" -> Neg(p, x)
Fns == {"e_fresh", "s_fresh", "positive", "negative"}

\* ---- spec mode
SpecCases == SetToSeq(U2S)
CheckSpec(i) ==
  LET p == SpecCases[i] IN
  IF \A fn \in Fns : \A x \in Ids : Doc(fn, p, x) => GroundTruth(fn, p, x) THEN "" ELSE "docrule"

\* ---- trace mode
Cases == IF Mode = "trace" THEN ndJsonDeserialize(IOEnv.CASES) ELSE <<>>
CheckTrace(i) ==
  LET c == Cases[i] IN
  IF HasAbort(c.e) THEN ""
  ELSE IF c.out # "ok" \/ c.oute # "ok" THEN "raised"
  ELSE IF c.res /\ ~GroundTruth(c.fn, c.e, c.x) THEN "unsound"
  ELSE IF c.rese /\ ~GroundTruth(c.fn, c.e, c.x) THEN "unsound"
  ELSE IF c.res # c.rese THEN "notation"
  ELSE IF c.impl = "rust" /\ c.res # Doc(c.fn, c.p, c.x) THEN "doc"
  ELSE ""
N == IF Mode = "trace" THEN Len(Cases) ELSE Len(SpecCases)
CheckAny(i) == IF Mode = "trace" THEN CheckTrace(i) ELSE CheckSpec(i)
INSTANCE TraceBlocks WITH NCases <- N, Check <- CheckAny
=============================================================================
