------------------------------- MODULE Trace_MM -------------------------------
(***************************************************************************)
(* C15.  Mode "spec": Decode(Encode(n)) = n, Encode(n) well formed and the *)
(* encoding is unique, for every n in a block of numbers (one TLC state    *)
(* per block).  Mode "trace": recorded results of the converter's          *)
(* compressed-proof import.                                                *)
(*   mmnum    : words (letter sequences) and the numbers the converter     *)
(*              decoded them to: words[k] = Encode(base + k) and           *)
(*              nums[k] = base + k  (clauses num-input, num)               *)
(*   mmdecode : label table = mandatory hypotheses in database order then  *)
(*              the listed labels (clause labels); step list = Steps of    *)
(*              the letter string (clause steps); a raise is clause raised *)
(* The hash seed of the producing process is a field of the event; the     *)
(* specification's answer does not depend on it.                           *)
(***************************************************************************)
EXTENDS MMCompressed, Json, IOUtils, TLCExt, SequencesExt
CONSTANTS BlockSize, Mode, MaxN
VARIABLE blk
Cases == IF Mode = "trace" THEN ndJsonDeserialize(IOEnv.CASES) ELSE <<>>

\* every well-formed word of a given length decodes into the right interval and re-encodes to itself
CheckSpecBlock(b) ==
  LET lo == (b - 1) * 1000 + 1
      hi == IF b * 1000 < MaxN THEN b * 1000 ELSE MaxN
  IN IF \A n \in lo..hi : LET w == Encode(n) IN WellFormedWord(w) /\ Decode(w) = n /\ (n > 1 => Encode(n - 1) # w)
     THEN "" ELSE "roundtrip"
\* uniqueness: Decode is injective on well-formed words because Encode(Decode(w)) = w
Words(len) == IF len = 1 THEN {<<c>> : c \in 1..20}
              ELSE IF len = 2 THEN {<<h, c>> : h \in 21..25, c \in 1..20}
              ELSE {<<h1, h2, c>> : h1 \in 21..25, h2 \in 21..25, c \in 1..20}
ASSUME Mode = "trace" \/ \A len \in 1..3 : \A w \in Words(len) : Encode(Decode(w)) = w

CheckTrace(i) ==
  LET c == Cases[i] IN
  IF c.fam = "mmnum" THEN
       IF \E k \in 1..Len(c.words) : c.words[k] # Encode(c.base + k) THEN "num-input"
       ELSE IF c.out # "ok" THEN "raised"
       ELSE IF Len(c.nums) # Len(c.words) \/ \E k \in 1..Len(c.words) : c.nums[k] # c.base + k THEN "num"
       ELSE ""
  ELSE \* mmdecode
       IF c.out # "ok" THEN "raised"
       ELSE IF c.labels # Layout(c.mand, c.listed) THEN "labels"
       ELSE IF c.steps # Steps(c.letters, <<>>) THEN "steps"
       ELSE ""
N == IF Mode = "trace" THEN Len(Cases) ELSE (MaxN + 999) \div 1000
CheckAny(i) == IF Mode = "trace" THEN CheckTrace(i) ELSE CheckSpecBlock(i)
INSTANCE TraceBlocks WITH NCases <- N, Check <- CheckAny
=============================================================================
