----------------------------- MODULE MLUniverse -----------------------------
(***************************************************************************)
(* Closed universes of terms from which TLC generates the cases that are   *)
(* fed to the implementations (spec -> code), and the shipped notations of *)
(* the generator as terms with "inst" nodes.                               *)
(***************************************************************************)
EXTENDS MLCore

\* ---- machine-level (no notation) ----
AtomsConcrete == {EV(0), EV(1), SV(0), SV(1), Sym(0)}
MetaAtoms == {CMV(0), CMV(1),
              MV(0, <<0>>, <<>>, <<>>, <<>>, <<>>), MV(0, <<>>, <<0>>, <<>>, <<>>, <<>>),
              MV(0, <<>>, <<>>, <<0>>, <<>>, <<>>), MV(0, <<>>, <<>>, <<>>, <<0>>, <<>>),
              MV(1, <<0, 1>>, <<1>>, <<0>>, <<1>>, <<>>)}
Atoms == AtomsConcrete \cup MetaAtoms
Ids == {0, 1}
\* one constructor layer over S (substitutions only over meta-shaped bodies taken from M)
Layer(S, M) ==
     {Imp(a, b) : a \in S, b \in S} \cup {App(a, b) : a \in S, b \in S}
     \cup {Ex(v, a) : v \in Ids, a \in S} \cup {Mu(v, a) : v \in Ids, a \in S}
     \cup {ES(m, v, g) : m \in M, v \in Ids, g \in S} \cup {SS(m, v, g) : m \in M, v \in Ids, g \in S}
U1 == Atoms \cup Layer(Atoms, MetaAtoms)
MetaU1 == {p \in U1 : IsMetaShaped(p)}
\* small atoms for the second layer (keeps U2 around 10^4)
AtomsS == {EV(0), SV(0), SV(1), CMV(0), MV(0, <<0>>, <<0>>, <<>>, <<>>, <<>>)}
U1S == AtomsS \cup Layer(AtomsS, {a \in AtomsS : IsMetaShaped(a)})
MetaU1S == {p \in U1S : IsMetaShaped(p)}
U2S == U1S
       \cup {Imp(a, b) : a \in U1S, b \in AtomsS} \cup {Imp(a, b) : a \in AtomsS, b \in U1S}
       \cup {App(a, b) : a \in U1S, b \in {SV(0), CMV(0)}}
       \cup {Ex(v, a) : v \in Ids, a \in U1S} \cup {Mu(v, a) : v \in Ids, a \in U1S}
       \cup {ES(m, v, g) : m \in MetaU1S, v \in Ids, g \in AtomsS} \cup {SS(m, v, g) : m \in MetaU1S, v \in Ids, g \in AtomsS}
       \cup {ES(m, v, g) : m \in {CMV(0)}, v \in Ids, g \in U1S} \cup {SS(m, v, g) : m \in {CMV(0)}, v \in Ids, g \in U1S}

\* ---- generator-level notation (definitions exactly as proof_generation/pattern.py builds them) ----
NBotDef   == Mu(0, SV(0))
NBot      == NInst(NBotDef, <<>>)
NNegDef   == Imp(CMV(0), NBot)
NNeg(a)   == NInst(NNegDef, << <<0, a>> >>)
NTopDef   == NNeg(NBot)
NTop      == NInst(NTopDef, <<>>)
NAndDef   == NNeg(Imp(CMV(0), NNeg(CMV(1))))
NAnd(a, b) == NInst(NAndDef, << <<0, a>>, <<1, b>> >>)
NOrDef    == Imp(NNeg(CMV(0)), CMV(1))
NOr(a, b) == NInst(NOrDef, << <<0, a>>, <<1, b>> >>)
NEquivDef == NAnd(Imp(CMV(0), CMV(1)), Imp(CMV(1), CMV(0)))
NEquiv(a, b) == NInst(NEquivDef, << <<0, a>>, <<1, b>> >>)

NLayer(S) == {NNeg(a) : a \in S} \cup {NAnd(a, b) : a \in S, b \in S} \cup {NOr(a, b) : a \in S, b \in S}
             \cup {NEquiv(a, b) : a \in S, b \in S}
NAtoms == {EV(0), EV(1), SV(0), CMV(0), CMV(1), MV(0, <<0>>, <<>>, <<>>, <<>>, <<>>), NBot, NTop}
PLayer(S) == {Imp(a, b) : a \in S, b \in S} \cup {App(a, b) : a \in S, b \in S}
             \cup {Ex(v, a) : v \in Ids, a \in S} \cup {Mu(v, a) : v \in {0}, a \in S}
             \cup {ES(m, v, g) : m \in {a \in S : IsMetaShaped(a)}, v \in Ids, g \in S}
NU1 == NAtoms \cup NLayer(NAtoms) \cup PLayer(NAtoms)
\* partial / reordered / odd instantiations as a user can build them with Instantiate(...) directly
NOdd == {NInst(Imp(CMV(0), CMV(1)), << <<0, EV(0)>> >>),
         NInst(Imp(CMV(0), CMV(1)), << <<1, EV(1)>>, <<0, EV(0)>> >>),
         NInst(Imp(CMV(0), CMV(1)), << <<0, CMV(1)>>, <<1, CMV(0)>> >>),
         NInst(NNegDef, <<>>), NInst(Imp(CMV(0), NBot), << <<0, NNeg(EV(1))>> >>),
         NInst(Ex(0, CMV(0)), << <<0, EV(0)>> >>), NInst(ES(CMV(0), 0, EV(1)), << <<0, EV(0)>> >>)}
NAtomsS == {EV(0), EV(1), CMV(0), NBot}
NU2S == LET L1 == NAtomsS \cup NLayer(NAtomsS) \cup {Imp(a, b) : a \in NAtomsS, b \in NAtomsS} \cup {Ex(0, a) : a \in NAtomsS}
        IN  {NNeg(a) : a \in L1} \cup {NAnd(a, b) : a \in NAtomsS, b \in L1} \cup {Imp(a, b) : a \in L1, b \in NAtomsS}
            \cup {Ex(v, a) : v \in Ids, a \in L1}
=============================================================================
