----------------------------- MODULE Trace_Render -----------------------------
(***************************************************************************)
(* C19.                                                                    *)
(* fam "notation": a notation template (format string split into literal   *)
(* and hole tokens by string.Formatter, trusted) must have a hole for      *)
(* every metavariable its definition depends on (clause holes), rendering  *)
(* must not fail (clause render-error), and the logged applications must   *)
(* be injective on dependent arguments: two applications whose dependent   *)
(* arguments are printed differently are printed differently (injective).  *)
(* fam "prettybin": the step keyword lines of a .pretty-* file and the     *)
(* instructions MLMachine!Decode finds in the .ml-* file of the same       *)
(* module / optimise setting / phase correspond one to one, in order       *)
(* (clauses pretty-error, count, step).                                    *)
(***************************************************************************)
EXTENDS MLMachine, Json, IOUtils, TLCExt, SequencesExt
CONSTANTS BlockSize
VARIABLE blk
Cases == ndJsonDeserialize(IOEnv.CASES)

SeqToSet(s) == {s[k] : k \in 1..Len(s)}
RECURSIVE DecodeAll(_, _)
DecodeAll(bs, i) == IF i > Len(bs) THEN <<>>
                    ELSE LET d == Decode(bs, i) IN IF ~d.ok THEN << I0("Bad") >> ELSE <<d.ins>> \o DecodeAll(bs, d.next)
Rev(s) == [k \in 1..Len(s) |-> s[Len(s) + 1 - k]]
KwOf(op) == IF op = "CleanMetaVar" THEN "MetaVar" ELSE op
StepOK(ins, st) ==
  /\ st.kw = KwOf(ins.op)
  /\ CASE ins.op \in {"EVar", "SVar", "Exists", "Mu", "ESubst", "SSubst", "Generalization", "Load", "MetaVar", "CleanMetaVar"} -> st.ops = <<ins.n>>
       [] ins.op = "Instantiate" -> st.ops = Rev(ins.ids)       \* pretty prints the keys in map order, the wire has them reversed
       [] OTHER -> TRUE
CheckCase(i) ==
  LET c == Cases[i] IN
  IF c.fam = "notation" THEN
       LET dep == MVIds(Expand(c.definition)) IN
       IF ~(dep \subseteq SeqToSet(c.holes)) THEN "holes"
       ELSE IF \E a \in 1..Len(c.apps) : ~c.apps[a].ok THEN "render-error"
       ELSE IF \E a \in 1..Len(c.apps) : \E b \in 1..Len(c.apps) :
                 /\ c.apps[a].out = c.apps[b].out
                 /\ \E k \in dep : k + 1 <= Len(c.apps[a].argstrs) /\ c.apps[a].argstrs[k + 1] # c.apps[b].argstrs[k + 1] THEN "injective"
       ELSE ""
  ELSE LET ins == DecodeAll(c.bytes, 1) IN
       IF ~c.pretty_ok THEN "pretty-error"          \* the binary files were written, writing the pretty ones raised
       ELSE IF Len(ins) # Len(c.steps) THEN "count"
       ELSE IF \E k \in 1..Len(ins) : ~StepOK(ins[k], c.steps[k]) THEN "step"
       ELSE ""
INSTANCE TraceBlocks WITH NCases <- Len(Cases), Check <- CheckCase
=============================================================================
