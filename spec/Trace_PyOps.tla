----------------------------- MODULE Trace_PyOps -----------------------------
(***************************************************************************)
(* Recorded calls of the Python pattern library, judged against MLCore.    *)
(*                                                                         *)
(* C12 notation transparency                                               *)
(*   eq    : (p == q) must equal  Expand(p) = Expand(q), in both orders    *)
(*   op    : an operation on p and the same operation on Expand(p) (the    *)
(*           expansion is computed by TLC) give equal results after        *)
(*           expansion (both raising counts as equal)                      *)
(* C13 matching                                                            *)
(*   match / matchlist : soundness, seed respected, completeness for       *)
(*           substitution-free patterns (incl. the empty solution)         *)
(*   roundtrip : N.matches(N(args)) rebuilds a pattern equal to N(args)    *)
(* C07 proof rules (Basic / Stateful interpreter)                          *)
(*   rule  : modus ponens / generalization / instantiation either raise or *)
(*           return exactly the documented conclusion; never a conclusion  *)
(*           when the rule is inapplicable                                 *)
(***************************************************************************)
EXTENDS MLSemantics, Json, IOUtils, TLCExt, SequencesExt
CONSTANTS BlockSize
VARIABLE blk
Cases == ndJsonDeserialize(IOEnv.CASES)

ExpSeq(s) == [k \in 1..Len(s) |-> Expand(s[k])]
ExpandVal(v) ==
  CASE v.kind = "term"  -> [kind |-> "term", t |-> Expand(v.t)]
    [] v.kind = "bind"  -> [kind |-> "bind", n |-> v.n, t |-> Expand(v.t)]
    [] v.kind = "terms" -> [kind |-> "terms", ts |-> ExpSeq(v.ts)]
    [] v.kind = "map"   -> [kind |-> "map", kv |-> {<<v.kv[k][1], Expand(v.kv[k][2])>> : k \in 1..Len(v.kv)}]
    [] OTHER -> v

RECURSIVE SubstFree(_)
SubstFree(p) == CASE p.t \in {"imp", "app"} -> SubstFree(p.l) /\ SubstFree(p.r)
                  [] p.t \in {"ex", "mu"} -> SubstFree(p.p)
                  [] p.t \in {"es", "ss"} -> FALSE
                  [] OTHER -> TRUE
KVFun(kv) == LET ks == {kv[j][1] : j \in 1..Len(kv)} IN
             [k \in ks |-> Expand(kv[CHOOSE j \in 1..Len(kv) : kv[j][1] = k][2])]

\* sequential matching of a list of equations starting from seed function sg
RECURSIVE MatchList(_, _)
MatchList(eqs, sg) ==
  IF eqs = <<>> \/ ~sg.ok THEN sg
  ELSE MatchList(Tail(eqs), MatchG(Expand(Head(eqs)[1]), Expand(Head(eqs)[2]), sg))

CheckMatch(c) ==     \* c.eqs : sequence of <<pattern, instance>>, c.seed : kv list, c.found, c.sigma : kv list
  LET seed == KVFun(c.seed)
      spec == MatchList(c.eqs, MState(seed))
      pats == [k \in 1..Len(c.eqs) |-> Expand(c.eqs[k][1])]
      inss == [k \in 1..Len(c.eqs) |-> Expand(c.eqs[k][2])]
  IN IF \E k \in 1..Len(c.eqs) : HasAbort(pats[k]) \/ HasAbort(inss[k]) THEN ""
     ELSE IF c.out # "ok" THEN "raised"
     ELSE IF c.found
          THEN LET sg == KVFun(c.sigma) IN
               IF ~(\A k \in DOMAIN seed : k \in DOMAIN sg /\ sg[k] = seed[k]) THEN "seed"
               ELSE IF \E k \in 1..Len(c.eqs) : FnInst(pats[k], sg) # inss[k] THEN "unsound"
               ELSE ""
          ELSE IF spec.ok /\ (\A k \in 1..Len(c.eqs) : SubstFree(pats[k])) THEN "incomplete"
          ELSE ""

RuleU == {EV(0), EV(1), SV(0), SV(1), Sym(0), Imp(SV(0), Bot), Ex(0, EV(1)), App(EV(0), SV(1))}
FreshInAllInstances(p, x) ==
  \A th \in Thetas(p, RuleU) :
     Admissible(p, th) => LET c == CInst(p, th) IN IF HasAbort(c) THEN TRUE ELSE x \notin FVe(c)
RECURSIVE Norm(_)
Norm(p) ==
  CASE p.t \in {"imp", "app"} -> [p EXCEPT !.l = Norm(p.l), !.r = Norm(p.r)]
    [] p.t \in {"ex", "mu"}   -> [p EXCEPT !.p = Norm(p.p)]
    [] p.t = "es" -> LET b == Norm(p.p) IN IF EFresh(b, p.v) THEN b ELSE ES(b, p.v, Norm(p.g))
    [] p.t = "ss" -> LET b == Norm(p.p) IN IF SFresh(b, p.v) THEN b ELSE SS(b, p.v, Norm(p.g))
    [] OTHER -> p

CheckRule(c) ==
  IF c.out # "ok" THEN ""                  \* raising is always allowed
  ELSE LET res == Expand(c.res) IN
  CASE c.rule = "mp" ->
         LET l == Expand(c.l)  r == Expand(c.r) IN
         IF l.t # "imp" THEN "inapplicable-nonimp"
         ELSE IF l.l # r THEN "inapplicable-antecedent"
         ELSE IF res # l.r THEN "conclusion" ELSE ""
    [] c.rule = "gen" ->
         LET p == Expand(c.p) IN
         IF p.t # "imp" THEN "inapplicable-nonimp"
         ELSE IF Cardinality(MVIds(p.r)) <= 2 /\ ~FreshInAllInstances(p.r, c.x) THEN "inapplicable-notfresh"
         ELSE IF res # Imp(Ex(c.x, p.l), p.r) THEN "conclusion" ELSE ""
    [] c.rule = "inst" ->
         LET p == Expand(c.p)
             ids == [k \in 1..Len(c.d) |-> c.d[k][1]]
             plugs == [k \in 1..Len(c.d) |-> Expand(c.d[k][2])]
             exp == Instantiate(p, ids, plugs)
         IN IF HasAbort(p) \/ HasAbort(exp) \/ HasAbort(res) THEN ""
            ELSE IF Norm(res) # Norm(exp) THEN "conclusion" ELSE ""

CheckCase(i) ==
  LET c == Cases[i] IN
  CASE c.fam = "eq" ->
         LET same == Expand(c.p) = Expand(c.q) IN
         IF HasAbort(Expand(c.p)) \/ HasAbort(Expand(c.q)) THEN ""
         ELSE IF c.out # "ok" THEN "raised"
         ELSE IF c.pq # same THEN "eq"
         ELSE IF c.qp # same THEN "eq-symmetry" ELSE ""
    [] c.fam = "op" ->
         \* cases whose expansion was computed by the driver carry it: it must be MLCore's Expand (else: machinery error)
         IF c.haspe /\ Expand(c.p) # c.pe THEN "bad-expansion"
         ELSE IF c.outp # c.oute THEN "op-raise"
         ELSE IF c.outp = "ok" /\ ExpandVal(c.rp) # ExpandVal(c.re) THEN "op" ELSE ""
    [] c.fam = "match" -> CheckMatch(c)
    [] c.fam = "roundtrip" ->
         IF c.out # "ok" THEN "raised"
         ELSE IF HasAbort(Expand(c.applied)) THEN ""
         ELSE IF ~c.matched THEN "roundtrip-nomatch"
         ELSE IF Expand(c.rebuilt) # Expand(c.applied) THEN "roundtrip" ELSE ""
    [] c.fam = "rule" -> CheckRule(c)
INSTANCE TraceBlocks WITH NCases <- Len(Cases), Check <- CheckCase
=============================================================================
