------------------------------- MODULE MLCore -------------------------------
(***************************************************************************)
(* Matching-logic terms as used by the pi2 proof checker and generator.    *)
(*                                                                         *)
(* Patterns are records with a tag field t:                                *)
(*   ev/sv/sym [i]        element variable, set variable, symbol           *)
(*   imp/app  [l, r]      implication, application                         *)
(*   ex/mu    [v, p]      binders                                          *)
(*   mv [i, ef, sf, pos, neg, hol]   metavariable with its five constraint *)
(*                        lists (sequences: the wire format keeps order    *)
(*                        and duplicates)                                  *)
(*   es/ss    [p, v, g]   pending element / set substitution p[g/v]        *)
(*   inst     [p, d]      generator-side notation node: definition p       *)
(*                        instantiated by the ordered key/value list d     *)
(*   abort                result of a substitution that would capture      *)
(*                                                                         *)
(* The judgements EFresh/SFresh/Pos/Neg/WellFormed are transcribed from    *)
(* docs/proof-language.md (NOT from the code).  FVe/FVs/CPos/CNeg are the  *)
(* textbook definitions on concrete patterns; MLSemantics gives the model  *)
(* theory.  Everything the other modules need about terms lives here.      *)
(***************************************************************************)
EXTENDS Naturals, Sequences, FiniteSets, TLC

EV(i)      == [t |-> "ev", i |-> i]
SV(i)      == [t |-> "sv", i |-> i]
Sym(i)     == [t |-> "sym", i |-> i]
Imp(l, r)  == [t |-> "imp", l |-> l, r |-> r]
App(l, r)  == [t |-> "app", l |-> l, r |-> r]
Ex(v, p)   == [t |-> "ex", v |-> v, p |-> p]
Mu(v, p)   == [t |-> "mu", v |-> v, p |-> p]
MV(i, ef, sf, pos, neg, hol) ==
   [t |-> "mv", i |-> i, ef |-> ef, sf |-> sf, pos |-> pos, neg |-> neg, hol |-> hol]
CMV(i)     == MV(i, <<>>, <<>>, <<>>, <<>>, <<>>)
ES(p, v, g) == [t |-> "es", p |-> p, v |-> v, g |-> g]
SS(p, v, g) == [t |-> "ss", p |-> p, v |-> v, g |-> g]
NInst(p, d) == [t |-> "inst", p |-> p, d |-> d]
Abort      == [t |-> "abort"]

Bot    == Mu(0, SV(0))
Not(p) == Imp(p, Bot)

InSeq(x, s) == \E k \in 1..Len(s) : s[k] = x
SeqSet(s)   == {s[k] : k \in 1..Len(s)}

RECURSIVE HasAbort(_)
HasAbort(p) ==
  CASE p.t = "abort" -> TRUE
    [] p.t \in {"imp", "app"} -> HasAbort(p.l) \/ HasAbort(p.r)
    [] p.t \in {"ex", "mu"}   -> HasAbort(p.p)
    [] p.t \in {"es", "ss"}   -> HasAbort(p.p) \/ HasAbort(p.g)
    [] OTHER -> FALSE

IsMetaShaped(p) == p.t \in {"mv", "es", "ss"}

-----------------------------------------------------------------------------
(* The meta-level judgements of docs/proof-language.md                      *)

RECURSIVE EFresh(_, _), SFresh(_, _), Pos(_, _), Neg(_, _)
EFresh(p, x) ==
  CASE p.t = "ev"  -> p.i # x
    [] p.t \in {"sv", "sym"} -> TRUE
    [] p.t = "mv"  -> InSeq(x, p.ef)
    [] p.t \in {"imp", "app"} -> EFresh(p.l, x) /\ EFresh(p.r, x)
    [] p.t = "ex"  -> x = p.v \/ EFresh(p.p, x)
    [] p.t = "mu"  -> EFresh(p.p, x)
    [] p.t = "es"  -> IF x = p.v THEN EFresh(p.g, x) ELSE EFresh(p.p, x) /\ EFresh(p.g, x)
    [] p.t = "ss"  -> EFresh(p.p, x) /\ EFresh(p.g, x)
SFresh(p, x) ==
  CASE p.t = "sv"  -> p.i # x
    [] p.t \in {"ev", "sym"} -> TRUE
    [] p.t = "mv"  -> InSeq(x, p.sf)
    [] p.t \in {"imp", "app"} -> SFresh(p.l, x) /\ SFresh(p.r, x)
    [] p.t = "ex"  -> SFresh(p.p, x)
    [] p.t = "mu"  -> x = p.v \/ SFresh(p.p, x)
    [] p.t = "es"  -> SFresh(p.p, x) /\ SFresh(p.g, x)
    [] p.t = "ss"  -> IF x = p.v THEN SFresh(p.g, x) ELSE SFresh(p.p, x) /\ SFresh(p.g, x)
Pos(p, x) ==
  CASE p.t \in {"ev", "sv", "sym"} -> TRUE
    [] p.t = "mv"  -> InSeq(x, p.pos)
    [] p.t = "imp" -> Neg(p.l, x) /\ Pos(p.r, x)
    [] p.t = "app" -> Pos(p.l, x) /\ Pos(p.r, x)
    [] p.t = "ex"  -> Pos(p.p, x)
    [] p.t = "mu"  -> x = p.v \/ Pos(p.p, x)
    [] p.t = "es"  -> Pos(p.p, x) /\ SFresh(p.g, x)
    [] p.t = "ss"  -> LET pp == SFresh(p.g, x) \/ (Pos(p.p, p.v) /\ Pos(p.g, x))
                                               \/ (Neg(p.p, p.v) /\ Neg(p.g, x))
                      IN IF x = p.v THEN pp ELSE Pos(p.p, x) /\ pp
Neg(p, x) ==
  CASE p.t \in {"ev", "sym"} -> TRUE
    [] p.t = "sv"  -> p.i # x
    [] p.t = "mv"  -> InSeq(x, p.neg)
    [] p.t = "imp" -> Pos(p.l, x) /\ Neg(p.r, x)
    [] p.t = "app" -> Neg(p.l, x) /\ Neg(p.r, x)
    [] p.t = "ex"  -> Neg(p.p, x)
    [] p.t = "mu"  -> x = p.v \/ Neg(p.p, x)
    [] p.t = "es"  -> Neg(p.p, x) /\ SFresh(p.g, x)
    [] p.t = "ss"  -> LET pn == SFresh(p.g, x) \/ (Pos(p.p, p.v) /\ Neg(p.g, x))
                                               \/ (Neg(p.p, p.v) /\ Pos(p.g, x))
                      IN IF x = p.v THEN pn ELSE Neg(p.p, x) /\ pn

(* Shallow well-formedness: what the machine checks when it constructs a   *)
(* node from well-formed parts.                                            *)
RedundantSubst(p) ==
  CASE p.t = "es" -> p.g = EV(p.v) \/ EFresh(p.p, p.v)
    [] p.t = "ss" -> p.g = SV(p.v) \/ SFresh(p.p, p.v)
    [] OTHER -> FALSE
WFNode(p) ==
  CASE p.t = "mv" -> SeqSet(p.hol) \cap SeqSet(p.ef) = {}
    [] p.t = "mu" -> Pos(p.p, p.v)
    [] p.t \in {"es", "ss"} -> IsMetaShaped(p.p) /\ ~RedundantSubst(p)
    [] OTHER -> TRUE
RECURSIVE WFDeep(_)
WFDeep(p) ==
  /\ WFNode(p)
  /\ CASE p.t \in {"imp", "app"} -> WFDeep(p.l) /\ WFDeep(p.r)
       [] p.t \in {"ex", "mu"}   -> WFDeep(p.p)
       [] p.t \in {"es", "ss"}   -> WFDeep(p.p) /\ WFDeep(p.g)
       [] OTHER -> TRUE

-----------------------------------------------------------------------------
(* Capture-avoiding substitution.  A substitution that would capture a     *)
(* free variable of the plug under ANY binder is Abort.  StrictES/StrictSS  *)
(* = FALSE reproduces the weaker checks of the pinned Rust code (only the  *)
(* same-sort binder is checked) and is used for diagnosis only.            *)

RECURSIVE ESubstG(_, _, _, _), SSubstG(_, _, _, _)
ESubstG(p, x, g, strict) ==
  CASE p.t = "ev"  -> IF p.i = x THEN g ELSE p
    [] p.t = "imp" -> Imp(ESubstG(p.l, x, g, strict), ESubstG(p.r, x, g, strict))
    [] p.t = "app" -> App(ESubstG(p.l, x, g, strict), ESubstG(p.r, x, g, strict))
    [] p.t = "ex"  -> IF p.v = x THEN p
                      ELSE IF ~EFresh(g, p.v) THEN Abort
                      ELSE Ex(p.v, ESubstG(p.p, x, g, strict))
    [] p.t = "mu"  -> IF strict /\ ~SFresh(g, p.v) THEN Abort
                      ELSE Mu(p.v, ESubstG(p.p, x, g, strict))
    [] p.t \in {"mv", "es", "ss"} -> ES(p, x, g)
    [] OTHER -> p
SSubstG(p, x, g, strict) ==
  CASE p.t = "sv"  -> IF p.i = x THEN g ELSE p
    [] p.t = "imp" -> Imp(SSubstG(p.l, x, g, strict), SSubstG(p.r, x, g, strict))
    [] p.t = "app" -> App(SSubstG(p.l, x, g, strict), SSubstG(p.r, x, g, strict))
    [] p.t = "ex"  -> IF strict /\ ~EFresh(g, p.v) THEN Abort
                      ELSE Ex(p.v, SSubstG(p.p, x, g, strict))
    [] p.t = "mu"  -> IF p.v = x THEN p
                      ELSE IF ~SFresh(g, p.v) THEN Abort
                      ELSE Mu(p.v, SSubstG(p.p, x, g, strict))
    [] p.t \in {"mv", "es", "ss"} -> SS(p, x, g)
    [] OTHER -> p
ApplyESubst(p, x, g) == ESubstG(p, x, g, TRUE)
ApplySSubst(p, x, g) == SSubstG(p, x, g, TRUE)
\* the pinned code's weaker behaviour, selectable in a cfg by  ApplyESubst <- LooseESubst  (diagnosis only)
LooseESubst(p, x, g) == ESubstG(p, x, g, FALSE)
LooseSSubst(p, x, g) == SSubstG(p, x, g, FALSE)

(* "Lazy" variants: a capture under a binder is only an Abort if the       *)
(* variable being substituted actually occurs free below the binder (the   *)
(* textbook definition).  Used as the most permissive sound reference.     *)

-----------------------------------------------------------------------------
(* Simultaneous metavariable instantiation (document: InstantiateSchema).  *)
(* ids/plugs are parallel sequences; the FIRST position of an id counts.   *)
(* Returns Abort (inside the term) when a constraint is violated or a      *)
(* resolved pending substitution would capture.                            *)

IdPos(ids, i) == CHOOSE k \in 1..Len(ids) : ids[k] = i /\ \A j \in 1..(k-1) : ids[j] # i
ConstraintsOK(m, g) ==
  /\ \A k \in 1..Len(m.ef)  : EFresh(g, m.ef[k])
  /\ \A k \in 1..Len(m.sf)  : SFresh(g, m.sf[k])
  /\ \A k \in 1..Len(m.pos) : Pos(g, m.pos[k])
  /\ \A k \in 1..Len(m.neg) : Neg(g, m.neg[k])

RECURSIVE InstG(_, _, _, _)
InstG(p, ids, plugs, chk) ==
  CASE p.t = "mv"  -> IF InSeq(p.i, ids)
                      THEN LET g == plugs[IdPos(ids, p.i)] IN
                           IF chk /\ ~ConstraintsOK(p, g) THEN Abort ELSE g
                      ELSE p
    [] p.t = "imp" -> Imp(InstG(p.l, ids, plugs, chk), InstG(p.r, ids, plugs, chk))
    [] p.t = "app" -> App(InstG(p.l, ids, plugs, chk), InstG(p.r, ids, plugs, chk))
    [] p.t = "ex"  -> Ex(p.v, InstG(p.p, ids, plugs, chk))
    [] p.t = "mu"  -> Mu(p.v, InstG(p.p, ids, plugs, chk))
    [] p.t = "es"  -> LET b == InstG(p.p, ids, plugs, chk)
                          g == InstG(p.g, ids, plugs, chk) IN
                      IF HasAbort(b) \/ HasAbort(g) THEN Abort ELSE ApplyESubst(b, p.v, g)
    [] p.t = "ss"  -> LET b == InstG(p.p, ids, plugs, chk)
                          g == InstG(p.g, ids, plugs, chk) IN
                      IF HasAbort(b) \/ HasAbort(g) THEN Abort ELSE ApplySSubst(b, p.v, g)
    [] OTHER -> p
Instantiate(p, ids, plugs)   == InstG(p, ids, plugs, TRUE)    \* the checker's rule
InstNoCheck(p, ids, plugs)   == InstG(p, ids, plugs, FALSE)   \* pure meta-substitution

-----------------------------------------------------------------------------
(* Notation expansion (generator side).  d is a sequence of <<key, value>> *)
(* pairs with distinct keys.                                               *)
Keys(d) == [k \in 1..Len(d) |-> d[k][1]]
Vals(d) == [k \in 1..Len(d) |-> d[k][2]]
RECURSIVE Expand(_)
Expand(p) ==
  CASE p.t = "inst" -> InstNoCheck(Expand(p.p), Keys(p.d), [k \in 1..Len(p.d) |-> Expand(p.d[k][2])])
    [] p.t \in {"imp", "app"} -> [p EXCEPT !.l = Expand(p.l), !.r = Expand(p.r)]
    [] p.t \in {"ex", "mu"}   -> [p EXCEPT !.p = Expand(p.p)]
    [] p.t \in {"es", "ss"}   -> [p EXCEPT !.p = Expand(p.p), !.g = Expand(p.g)]
    [] OTHER -> p
RECURSIVE HasNotation(_)
HasNotation(p) ==
  CASE p.t = "inst" -> TRUE
    [] p.t \in {"imp", "app"} -> HasNotation(p.l) \/ HasNotation(p.r)
    [] p.t \in {"ex", "mu"}   -> HasNotation(p.p)
    [] p.t \in {"es", "ss"}   -> HasNotation(p.p) \/ HasNotation(p.g)
    [] OTHER -> FALSE

-----------------------------------------------------------------------------
(* Textbook notions on CONCRETE patterns (no mv/es/ss/inst).               *)
RECURSIVE FVe(_), FVs(_), CPos(_, _), CNeg(_, _), IsConcrete(_)
IsConcrete(p) ==
  CASE p.t \in {"ev", "sv", "sym"} -> TRUE
    [] p.t \in {"imp", "app"} -> IsConcrete(p.l) /\ IsConcrete(p.r)
    [] p.t \in {"ex", "mu"}   -> IsConcrete(p.p)
    [] OTHER -> FALSE
FVe(p) == CASE p.t = "ev" -> {p.i}
            [] p.t \in {"imp", "app"} -> FVe(p.l) \cup FVe(p.r)
            [] p.t = "ex" -> FVe(p.p) \ {p.v}
            [] p.t = "mu" -> FVe(p.p)
            [] OTHER -> {}
FVs(p) == CASE p.t = "sv" -> {p.i}
            [] p.t \in {"imp", "app"} -> FVs(p.l) \cup FVs(p.r)
            [] p.t = "mu" -> FVs(p.p) \ {p.v}
            [] p.t = "ex" -> FVs(p.p)
            [] OTHER -> {}
\* all free occurrences of X in p are positive / negative
CPos(p, X) == CASE p.t = "imp" -> CNeg(p.l, X) /\ CPos(p.r, X)
                [] p.t = "app" -> CPos(p.l, X) /\ CPos(p.r, X)
                [] p.t = "ex"  -> CPos(p.p, X)
                [] p.t = "mu"  -> p.v = X \/ CPos(p.p, X)
                [] OTHER -> TRUE
CNeg(p, X) == CASE p.t = "sv"  -> p.i # X
                [] p.t = "imp" -> CPos(p.l, X) /\ CNeg(p.r, X)
                [] p.t = "app" -> CNeg(p.l, X) /\ CNeg(p.r, X)
                [] p.t = "ex"  -> CNeg(p.p, X)
                [] p.t = "mu"  -> p.v = X \/ CNeg(p.p, X)
                [] OTHER -> TRUE

(* Textbook capture-avoiding substitution on concrete patterns: undefined  *)
(* (Abort) only if a free occurrence of the variable lies under a binder   *)
(* that captures a free variable of the plug.                              *)
RECURSIVE TbESubst(_, _, _), TbSSubst(_, _, _)
TbESubst(p, x, g) ==
  CASE p.t = "ev"  -> IF p.i = x THEN g ELSE p
    [] p.t \in {"imp", "app"} -> [p EXCEPT !.l = TbESubst(p.l, x, g), !.r = TbESubst(p.r, x, g)]
    [] p.t = "ex"  -> IF p.v = x \/ x \notin FVe(p.p) THEN p
                      ELSE IF p.v \in FVe(g) THEN Abort ELSE Ex(p.v, TbESubst(p.p, x, g))
    [] p.t = "mu"  -> IF x \notin FVe(p.p) THEN p
                      ELSE IF p.v \in FVs(g) THEN Abort ELSE Mu(p.v, TbESubst(p.p, x, g))
    [] OTHER -> p
TbSSubst(p, x, g) ==
  CASE p.t = "sv"  -> IF p.i = x THEN g ELSE p
    [] p.t \in {"imp", "app"} -> [p EXCEPT !.l = TbSSubst(p.l, x, g), !.r = TbSSubst(p.r, x, g)]
    [] p.t = "mu"  -> IF p.v = x \/ x \notin FVs(p.p) THEN p
                      ELSE IF p.v \in FVs(g) THEN Abort ELSE Mu(p.v, TbSSubst(p.p, x, g))
    [] p.t = "ex"  -> IF x \notin FVs(p.p) THEN p
                      ELSE IF p.v \in FVe(g) THEN Abort ELSE Ex(p.v, TbSSubst(p.p, x, g))
    [] OTHER -> p

-----------------------------------------------------------------------------
(* Metavariables, size                                                     *)
RECURSIVE MVs(_), MVIds(_), Size(_)
MVs(p) == CASE p.t = "mv" -> {p}
            [] p.t \in {"imp", "app"} -> MVs(p.l) \cup MVs(p.r)
            [] p.t \in {"ex", "mu"} -> MVs(p.p)
            [] p.t \in {"es", "ss"} -> MVs(p.p) \cup MVs(p.g)
            [] OTHER -> {}
MVIds(p) == {m.i : m \in MVs(p)}
Size(p) == CASE p.t \in {"imp", "app"} -> 1 + Size(p.l) + Size(p.r)
             [] p.t \in {"ex", "mu"} -> 1 + Size(p.p)
             [] p.t \in {"es", "ss"} -> 1 + Size(p.p) + Size(p.g)
             [] OTHER -> 1

-----------------------------------------------------------------------------
(* First-order matching of a schematic pattern against an instance.        *)
(* sigma is a function from a finite set of metavariable ids to patterns.  *)
(* A matching state is [ok, f]: ok = FALSE is failure, f the bindings so far. *)
EmptyFn == [k \in {} |-> Bot]
NoMatch == [ok |-> FALSE, f |-> EmptyFn]
MState(f) == [ok |-> TRUE, f |-> f]
RECURSIVE MatchG(_, _, _)
MatchG(pat, ins, sg) ==
  IF ~sg.ok THEN NoMatch ELSE
  CASE pat.t = "mv" -> IF pat.i \in DOMAIN sg.f
                       THEN (IF sg.f[pat.i] = ins THEN sg ELSE NoMatch)
                       ELSE MState([k \in DOMAIN sg.f \cup {pat.i} |-> IF k = pat.i THEN ins ELSE sg.f[k]])
    [] pat.t \in {"ev", "sv", "sym"} -> IF pat = ins THEN sg ELSE NoMatch
    [] pat.t \in {"imp", "app"} -> IF ins.t = pat.t THEN MatchG(pat.r, ins.r, MatchG(pat.l, ins.l, sg)) ELSE NoMatch
    [] pat.t \in {"ex", "mu"}   -> IF ins.t = pat.t /\ ins.v = pat.v THEN MatchG(pat.p, ins.p, sg) ELSE NoMatch
    [] OTHER -> NoMatch
Match(pat, ins) == MatchG(pat, ins, MState(EmptyFn))
FnIds(sg)  == LET S == DOMAIN sg IN
              IF S = {} THEN <<>> ELSE
              LET RECURSIVE ToSeq(_)
                  ToSeq(T) == IF T = {} THEN <<>> ELSE LET m == CHOOSE a \in T : \A b \in T : a <= b IN <<m>> \o ToSeq(T \ {m})
              IN ToSeq(S)
FnInst(p, sg) == LET ids == FnIds(sg) IN InstNoCheck(p, ids, [k \in 1..Len(ids) |-> sg[ids[k]]])
=============================================================================
