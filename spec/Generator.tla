------------------------------ MODULE Generator ------------------------------
(***************************************************************************)
(* The generator-side state tracker (StatefulInterpreter) together with    *)
(* the serializer (SerializingInterpreter): one transition per Interpreter *)
(* method.  GStep(g, c) = [ok, g, bytes]: whether the tracker accepts the  *)
(* call, its new state and the bytes appended to the current phase's sink. *)
(*                                                                         *)
(* g = [stack, memory, claims, phase, syms]                                *)
(*   stack  : Seq(entry) - entries keep their notation ("inst" nodes)      *)
(*   memory : Seq(entry)                                                   *)
(*   claims : Seq(term)   the declared claims, front = next to discharge   *)
(*   syms   : Seq(symbol) serializer symbol table: position - 1 = wire id  *)
(* Equality of tracker terms is equality of their expansions (Python ==).  *)
(*                                                                         *)
(* Named deviation PyPublishKeepsTop: publish_* leaves the published term  *)
(* on the tracker stack (pinned by test_interpreter_proof_state).          *)
(***************************************************************************)
EXTENDS MLMachine

Call(m, n, a, b, d, cs) == [m |-> m, n |-> n, a |-> a, b |-> b, d |-> d, cs |-> cs]
\* m: method; n: id operand; a, b: term operands (Bot when unused); d: <<key, term>> list; cs: 5 constraint lists
C0(m)          == Call(m, 0, Bot, Bot, <<>>, <<>>)
C1(m, n)       == Call(m, n, Bot, Bot, <<>>, <<>>)
CT(m, n, a, b) == Call(m, n, a, b, <<>>, <<>>)

GInit(claims) == [stack |-> <<>>, memory |-> <<>>, claims |-> claims, phase |-> "gamma", syms |-> <<>>, rt |-> <<>>]
\* rt[k] = TRUE: tracker stack slot k holds a published term the machine has already consumed (PyPublishKeepsTop)

EqT(x, y) == Expand(x) = Expand(y)
EqE(x, y) == x.k = y.k /\ EqT(x.p, y.p)
SymId(syms, s) == (CHOOSE k \in 1..Len(syms) : syms[k] = s) - 1
MemIndex(mem, e) == (CHOOSE k \in 1..Len(mem) : EqE(mem[k], e) /\ \A j \in 1..(k - 1) : ~EqE(mem[j], e)) - 1
RevKeys(d) == [k \in 1..Len(d) |-> d[Len(d) + 1 - k][1]]
DistinctKeys(d) == \A i \in 1..Len(d) : \A j \in 1..Len(d) : i # j => d[i][1] # d[j][1]

GStep(g, c) ==
  LET S == g.stack
      n == Len(S)
      E(k) == S[n - k]
      Has(k) == n > k
      Ok(s, bs) == [ok |-> TRUE, g |-> s, bytes |-> bs]
      Rej == [ok |-> FALSE, g |-> g, bytes |-> <<>>]
      PopPush(m, e) == [g EXCEPT !.stack = Append(SubSeq(S, 1, n - m), e), !.rt = Append(SubSeq(g.rt, 1, n - m), FALSE)]
      Retain(s) == [s EXCEPT !.rt = [g.rt EXCEPT ![n] = TRUE]]
      m == c.m
      \* stack[-(len(d)+1) .. -2] must be the delta values in order
      PlugsOK == LET q == Len(c.d) IN
                 IF q = 0 THEN n = 1             \* stack[-0:] slices the whole rest: only accepted when nothing is below
                 ELSE n >= q + 1 /\ \A k \in 1..q : EqE(S[n - 1 - q + k], Pat(c.d[k][2]))
      InstBytes == <<26, Len(c.d)>> \o RevKeys(c.d)
  IN
  CASE m = "evar" -> Ok(PopPush(0, Pat(EV(c.n))), <<2, c.n>>)
    [] m = "svar" -> Ok(PopPush(0, Pat(SV(c.n))), <<3, c.n>>)
    [] m = "symbol" ->
         LET syms2 == IF \E k \in 1..Len(g.syms) : g.syms[k] = c.n THEN g.syms ELSE Append(g.syms, c.n)
         IN Ok([PopPush(0, Pat(Sym(c.n))) EXCEPT !.syms = syms2], <<4, SymId(syms2, c.n)>>)
    [] m = "metavar" ->
         LET mv == MV(c.n, c.cs[1], c.cs[2], c.cs[3], c.cs[4], c.cs[5])
             clean == \A k \in 1..5 : c.cs[k] = <<>>
         IN Ok(PopPush(0, Pat(mv)), IF clean THEN <<137, c.n>> ELSE Encode(IMeta(c.n, c.cs[1], c.cs[2], c.cs[3], c.cs[4], c.cs[5])))
    [] m \in {"implies", "app"} ->
         IF Has(1) /\ EqE(E(1), Pat(c.a)) /\ EqE(E(0), Pat(c.b))
         THEN Ok(PopPush(2, Pat(IF m = "implies" THEN Imp(c.a, c.b) ELSE App(c.a, c.b))), IF m = "implies" THEN <<5>> ELSE <<6>>)
         ELSE Rej
    [] m \in {"exists", "mu"} ->
         IF Has(0) /\ EqE(E(0), Pat(c.a))
         THEN Ok(PopPush(1, Pat(IF m = "exists" THEN Ex(c.n, c.a) ELSE Mu(c.n, c.a))), IF m = "exists" THEN <<8, c.n>> ELSE <<7, c.n>>)
         ELSE Rej
    [] m \in {"esubst", "ssubst"} ->      \* a = pattern (top), b = plug (below)
         IF Has(1) /\ EqE(E(0), Pat(c.a)) /\ EqE(E(1), Pat(c.b))
         THEN Ok(PopPush(2, Pat(IF m = "esubst" THEN ES(c.a, c.n, c.b) ELSE SS(c.a, c.n, c.b))), IF m = "esubst" THEN <<10, c.n>> ELSE <<11, c.n>>)
         ELSE Rej
    [] m = "prop1" -> Ok(PopPush(0, Prf(Prop1Ax)), <<12>>)
    [] m = "prop2" -> Ok(PopPush(0, Prf(Prop2Ax)), <<13>>)
    [] m = "prop3" -> Ok(PopPush(0, Prf(Imp(Imp(Imp(Phi0, NInst(Mu(0, SV(0)), <<>>)), NInst(Mu(0, SV(0)), <<>>)), Phi0))), <<14>>)
    [] m = "exists_quantifier" -> Ok(PopPush(0, Prf(QuantifierAx)), <<15>>)
    [] m = "modus_ponens" ->            \* a = left conclusion, b = right conclusion
         IF Has(1) /\ EqE(E(1), Prf(c.a)) /\ EqE(E(0), Prf(c.b)) /\ Expand(c.a).t = "imp" /\ Expand(c.a).l = Expand(c.b)
         THEN Ok(PopPush(2, Prf(Expand(c.a).r)), <<21>>) ELSE Rej
    [] m = "exists_generalization" ->
         IF Has(0) /\ EqE(E(0), Prf(c.a)) /\ Expand(c.a).t = "imp" /\ EFresh(Expand(c.a).r, c.n)
         THEN Ok(PopPush(1, Prf(Imp(Ex(c.n, Expand(c.a).l), Expand(c.a).r))), <<22, c.n>>) ELSE Rej
    [] m = "instantiate" ->             \* a = proved conclusion, d = delta (in dict order)
         IF Has(0) /\ EqE(E(0), Prf(c.a)) /\ DistinctKeys(c.d) /\ PlugsOK
         THEN Ok(PopPush(Len(c.d) + 1, Prf(InstNoCheck(Expand(c.a), Keys(c.d), [k \in 1..Len(c.d) |-> Expand(c.d[k][2])]))), InstBytes)
         ELSE Rej
    [] m = "instantiate_pattern" ->
         IF Has(0) /\ EqE(E(0), Pat(c.a)) /\ DistinctKeys(c.d) /\ (Len(c.d) = 0 \/ PlugsOK)
         THEN Ok(PopPush(Len(c.d) + 1, Pat(NInst(c.a, c.d))), InstBytes) ELSE Rej
    [] m = "pop" -> IF Has(0) /\ EqE(E(0), c.a) THEN Ok([g EXCEPT !.stack = SubSeq(S, 1, n - 1), !.rt = SubSeq(g.rt, 1, n - 1)], <<27>>) ELSE Rej
    [] m = "save" -> IF Has(0) /\ EqE(E(0), c.a) THEN Ok([g EXCEPT !.memory = Append(@, c.a)], <<28>>) ELSE Rej
    [] m = "load" -> IF \E k \in 1..Len(g.memory) : EqE(g.memory[k], c.a)
                     THEN Ok(PopPush(0, c.a), <<29, MemIndex(g.memory, c.a)>>) ELSE Rej
    [] m = "publish_axiom" ->
         IF g.phase = "gamma" /\ Has(0) /\ EqE(E(0), Pat(c.a))
         THEN Ok(Retain([g EXCEPT !.memory = Append(@, Prf(c.a))]), <<30>>) ELSE Rej
    [] m = "publish_claim" ->
         IF g.phase = "claim" /\ Has(0) /\ EqE(E(0), Pat(c.a)) THEN Ok(Retain(g), <<30>>) ELSE Rej
    [] m = "publish_proof" ->
         IF g.phase = "proof" /\ Len(g.claims) > 0 /\ EqT(g.claims[1], c.a) /\ Has(0) /\ EqE(E(0), Prf(c.a))
         THEN Ok(Retain([g EXCEPT !.claims = Tail(@)]), <<30>>) ELSE Rej
    [] m = "into_claim_phase" -> IF g.phase = "gamma" THEN Ok([g EXCEPT !.stack = <<>>, !.rt = <<>>, !.phase = "claim"], <<>>) ELSE Rej
    [] m = "into_proof_phase" -> IF g.phase = "claim" THEN Ok([g EXCEPT !.stack = <<>>, !.rt = <<>>, !.phase = "proof"], <<>>) ELSE Rej
    [] OTHER -> Rej

\* a and b of these calls are entries ([k, p]) rather than terms
EntryCalls == {"pop", "save", "load"}

(* ----------------------------------------------------------------------- *)
(* The simulation relation between tracker g (with `ret` published-but-    *)
(* retained slots in the current phase) and machine state mst.             *)
RECURSIVE RenameSym(_, _)
RenameSym(p, syms) ==
  CASE p.t = "sym" -> Sym(SymId(syms, p.i))
    [] p.t \in {"imp", "app"} -> [p EXCEPT !.l = RenameSym(p.l, syms), !.r = RenameSym(p.r, syms)]
    [] p.t \in {"ex", "mu"}   -> [p EXCEPT !.p = RenameSym(p.p, syms)]
    [] p.t \in {"es", "ss"}   -> [p EXCEPT !.p = RenameSym(p.p, syms), !.g = RenameSym(p.g, syms)]
    [] OTHER -> p
Img(e, syms) == [k |-> e.k, p |-> RenameSym(Expand(e.p), syms)]
Reverse(s) == [k \in 1..Len(s) |-> s[Len(s) + 1 - k]]
\* the tracker stack without the retained (already published) slots
LiveIdx(g) == {k \in 1..Len(g.stack) : ~g.rt[k]}
RECURSIVE LiveSeq(_, _)
LiveSeq(g, k) == IF k > Len(g.stack) THEN <<>> ELSE (IF g.rt[k] THEN <<>> ELSE <<Img(g.stack[k], g.syms)>>) \o LiveSeq(g, k + 1)
Rel(g, mst) ==
  /\ LiveSeq(g, 1) = mst.stack                    \* the WHOLE live stack, not only its top
  /\ Len(g.memory) = Len(mst.memory)
  /\ \A k \in 1..Len(g.memory) : Img(g.memory[k], g.syms) = mst.memory[k]
  /\ g.phase = "proof" => [k \in 1..Len(g.claims) |-> RenameSym(Expand(g.claims[k]), g.syms)] = Reverse(mst.claims)
=============================================================================
