----------------------------- MODULE MC_IndStep -----------------------------
(***************************************************************************)
(* C01 (A1): the inductive step of the soundness argument, checked         *)
(* exhaustively on a closed universe - this covers ALL instruction orders  *)
(* at once: if every proved entry of a state is a valid schema, then after *)
(* any single rule instruction (with any operands of the universe) the new *)
(* proved entry is a valid schema too.                                     *)
(*                                                                         *)
(* One case = one candidate premise v.  TLC decides ValidSchema(v); valid  *)
(* premises are printed (VALID json) so that the harness can put the Rust  *)
(* checker into the same pre-states, and every rule instance is executed   *)
(* on the specification machine here (clause "spec-unsound" would be a     *)
(* defect of the specification, i.e. of the design).                       *)
(***************************************************************************)
EXTENDS MLMachine, MLSemantics, MLUniverse, Json, TLCExt, SequencesExt
CONSTANTS BlockSize, Quick
VARIABLE blk

IU == InstUSmall
PlugsInd == {EV(0), EV(1), SV(0), SV(1), Imp(SV(0), Bot), Ex(0, EV(1)), CMV(1),
             Imp(EV(0), Bot), MV(1, <<0>>, <<>>, <<>>, <<>>, <<>>), Mu(1, SV(0)),
             Imp(Ex(0, EV(0)), Bot), Imp(Mu(0, SV(0)), SV(0)), Ex(1, Imp(EV(0), EV(1))),
             \* a metavariable constrained in the OTHER sort next to the variable with the same number (a pending
             \* substitution must not be dropped on it)
             App(MV(1, <<>>, <<0>>, <<>>, <<>>, <<>>), EV(0)), Imp(MV(1, <<0>>, <<>>, <<>>, <<>>, <<>>), SV(0))}
PlugsInd2 == {EV(0), SV(0), CMV(1), Ex(1, EV(0))}
\* bodies for implications a -> a and a -> (b -> a): rich in binders and pending substitutions
BodyU == IF Quick THEN {p \in U1 : p.t \in {"es", "ss"} /\ Cardinality(MVIds(p)) <= 1 /\ p.g.t # "mv"}
         ELSE {p \in U1 : Cardinality(MVIds(p)) <= 1}
PendU == {ES(CMV(1), 0, g) : g \in {EV(1), Imp(EV(0), Bot), Ex(0, EV(0))}} \cup
         {SS(CMV(1), 0, g) : g \in {SV(1), Imp(SV(0), Bot), EV(0)}} \cup
         {ES(MV(1, <<>>, <<>>, <<0>>, <<>>, <<>>), 0, SV(0))}
SmallU == {EV(0), EV(1), SV(0), SV(1), CMV(0), CMV(1), Ex(0, EV(0)), Ex(0, SV(0)), Ex(0, CMV(0)), Mu(0, SV(0)),
           Imp(SV(0), Bot), Imp(EV(0), Bot), MV(0, <<0>>, <<>>, <<>>, <<>>, <<>>), Ex(1, EV(0)), Imp(CMV(0), CMV(1))}
Candidates ==
     {Imp(a, a) : a \in BodyU \cup PendU}
     \cup {Imp(a, b) : a \in SmallU, b \in SmallU}
     \cup {Imp(a, Imp(b, a)) : a \in PendU \cup {CMV(0), SV(0), EV(0)}, b \in {CMV(1), SV(1)}}
     \cup {Prop1Ax, Prop2Ax, Prop3Ax, QuantifierAx, ExistenceAx}
     \cup {Ex(0, a) : a \in SmallU} \cup {Imp(Ex(0, a), a) : a \in SmallU \cup PendU}
Cases == SetToSeq(Candidates)

IndAlphabet == {I1("Generalization", 0), I1("Generalization", 1), I1("Substitution", 0), I1("Substitution", 1),
                IInst(<<0>>), IInst(<<1>>), IInst(<<2>>), IInst(<<0, 1>>), IInst(<<1, 0>>), IInst(<<1, 1>>)}
ASSUME PrintT("ALPHA " \o ToJson(IndAlphabet))
ASSUME PrintT("PLUGS " \o ToJson(PlugsInd))
ASSUME PrintT("PLUGS2 " \o ToJson(PlugsInd2))

St(stack) == [InitState("proof") EXCEPT !.stack = stack]
StepSound(stack, ins) ==
  LET r == Step(St(stack), ins) IN
  r.ok => LET top == r.st.stack[Len(r.st.stack)] IN top.k = "prf" => ValidSchemaU(top.p, {}, IU)
SpecSound(v) ==
  /\ \A ins \in {i \in IndAlphabet : i.op # "Instantiate" \/ Len(i.ids) = 1} :
        \A g \in PlugsInd : StepSound(<<Pat(g), Prf(v)>>, ins)
  /\ \A ins \in {i \in IndAlphabet : i.op = "Instantiate" /\ Len(i.ids) = 2} :
        \A g1 \in PlugsInd2 : \A g2 \in PlugsInd2 : StepSound(<<Pat(g2), Pat(g1), Prf(v)>>, ins)
CheckCase(i) ==
  LET v == Cases[i] IN
  \* only well-formed terms can stand on the machine's stack (a mu over an unconstrained metavariable cannot be built)
  IF ~WFDeep(v) \/ ~ValidSchemaU(v, {}, IU) THEN ""
  ELSE IF PrintT("VALID " \o ToJson(v)) /\ SpecSound(v) THEN "" ELSE "spec-unsound"
INSTANCE TraceBlocks WITH NCases <- Len(Cases), Check <- CheckCase
=============================================================================
