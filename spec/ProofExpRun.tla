------------------------------ MODULE ProofExpRun ------------------------------
(***************************************************************************)
(* Compilation of a ProofExp expression into primitive interpreter calls   *)
(* (what executing the ProofThunk does), and its effect on the tracker /   *)
(* serializer (Generator) and on the machine run on the emitted bytes.     *)
(*                                                                         *)
(*   ExprCalls(r):  prop1/2/3, quant     one call                          *)
(*                  mp(a, b)             calls(a) ; calls(b) ; modus_ponens*)
(*                  gen(a, x)            calls(a) ; exists_generalization  *)
(*                  dyn/inst(a, d)       pattern(plug) for every entry of  *)
(*                                       d in map order ; calls(a) ;       *)
(*                                       instantiate   (nothing if d = {}) *)
(* Theorem checked by TLC (MC_ProofExp): for every enumerated expression   *)
(* whose rules are applicable, folding ExprCalls over tracker and machine  *)
(* is accepted at every step, preserves Rel, and leaves exactly the proved *)
(* conclusion Conc(r).c on top of the machine stack.                       *)
(***************************************************************************)
EXTENDS Memo, ProofExp

RECURSIVE ExprCalls(_)
PlugCalls(d) == BuildPlugs(d, 1, [calls |-> <<>>, mem |-> <<>>], {}).calls
ExprCalls(r) ==
  CASE r.k = "prop1" -> <<C0("prop1")>>
    [] r.k = "prop2" -> <<C0("prop2")>>
    [] r.k = "prop3" -> <<C0("prop3")>>
    [] r.k = "quant" -> <<C0("exists_quantifier")>>
    [] r.k = "axiom" -> <<CT("load", 0, Prf(r.t), Bot)>>
    [] r.k = "mp"  -> ExprCalls(r.a) \o ExprCalls(r.b) \o <<CT("modus_ponens", 0, Conc(r.a).c, Conc(r.b).c)>>
    [] r.k = "gen" -> ExprCalls(r.a) \o <<CT("exists_generalization", r.x, Conc(r.a).c, Bot)>>
    [] r.k \in {"dyn", "inst"} ->
         IF r.d = <<>> THEN ExprCalls(r.a)
         ELSE PlugCalls(r.d) \o ExprCalls(r.a) \o <<Call("instantiate", 0, Conc(r.a).c, Bot, r.d, <<>>)>>

G0 == [GInit(<<>>) EXCEPT !.phase = "proof"]
M0 == InitState("proof")
RECURSIVE FoldOK(_, _, _)
FoldOK(g, ms, cs) ==       \* [ok, g, ms]
  IF cs = <<>> THEN [ok |-> TRUE, g |-> g, ms |-> ms]
  ELSE LET r == GStep(g, Head(cs)) IN
       IF ~r.ok THEN [ok |-> FALSE, g |-> g, ms |-> ms]
       ELSE LET m1 == RunPhase(r.bytes, ms) IN
            IF ~m1.ok \/ ~Rel(r.g, m1.st) THEN [ok |-> FALSE, g |-> r.g, ms |-> m1.st]
            ELSE FoldOK(r.g, m1.st, Tail(cs))
Methods(cs) == [k \in 1..Len(cs) |-> cs[k].m]
\* "" or the clause of the theorem that fails
CompileClause(r) ==
  LET e == Conc(r) IN
  IF ~(e.ok /\ e.run /\ ~e.und) THEN ""
  ELSE LET f == FoldOK(G0, M0, ExprCalls(r)) IN
       IF ~f.ok THEN "compile-not-accepted"
       ELSE IF f.ms.stack # <<Prf(Expand(e.c))>> THEN "compile-proves-other"
       ELSE ""

(* ----------------------------------------------------------------------- *)
(* A whole module  m = [imports : Seq(module), axioms : Seq(term),          *)
(* proofs : Seq(expression)]  (its claims are the conclusions of its proof *)
(* expressions; an imported module contributes its theory - recursively,   *)
(* imports first, once per import edge - but not its claims): the calls of *)
(* execute_gamma_phase / execute_claims_phase / execute_proofs_phase, the  *)
(* three byte files the serializer writes for them, and the theorem that   *)
(* the machine verifies those files.                                       *)
PatCalls0(p) == PatCalls(p, [calls |-> <<>>, mem |-> <<>>], {}).calls
RECURSIVE AxiomCalls(_, _), ClaimCalls(_, _), ProofCalls(_, _)
AxiomCalls(as, k) == IF k > Len(as) THEN <<>> ELSE PatCalls0(as[k]) \o <<CT("publish_axiom", 0, as[k], Bot)>> \o AxiomCalls(as, k + 1)
ClaimCalls(cs, k) == IF k < 1 THEN <<>> ELSE PatCalls0(cs[k]) \o <<CT("publish_claim", 0, cs[k], Bot)>> \o ClaimCalls(cs, k - 1)   \* reversed
ProofCalls(ps, k) == IF k > Len(ps) THEN <<>> ELSE ExprCalls(ps[k]) \o <<CT("publish_proof", 0, Conc(ps[k]).c, Bot)>> \o ProofCalls(ps, k + 1)
ClaimsOf(m) == [k \in 1..Len(m.proofs) |-> Conc(m.proofs[k]).c]
RECURSIVE GammaCalls(_), ImportCalls(_, _)
ImportCalls(ms, k) == IF k > Len(ms) THEN <<>> ELSE GammaCalls(ms[k]) \o ImportCalls(ms, k + 1)
GammaCalls(m) == ImportCalls(m.imports, 1) \o AxiomCalls(m.axioms, 1)
ModuleCalls(m) == GammaCalls(m) \o <<C0("into_claim_phase")>> \o ClaimCalls(ClaimsOf(m), Len(m.proofs))
                  \o <<C0("into_proof_phase")>> \o ProofCalls(m.proofs, 1)
\* fold the tracker/serializer over the calls, appending the bytes of every call to the file of the phase it ran in
RECURSIVE FoldFiles(_, _, _)
FoldFiles(g, cs, fl) ==
  IF cs = <<>> THEN [ok |-> TRUE, g |-> g, files |-> fl]
  ELSE LET r == GStep(g, Head(cs)) IN
       IF ~r.ok THEN [ok |-> FALSE, g |-> g, files |-> fl]
       ELSE FoldFiles(r.g, Tail(cs), [fl EXCEPT ![g.phase] = @ \o r.bytes])
ModuleFiles(m) == FoldFiles(GInit(ClaimsOf(m)), ModuleCalls(m), [gamma |-> <<>>, claim |-> <<>>, proof |-> <<>>])
ModuleApplicable(m) == \A k \in 1..Len(m.proofs) : LET e == Conc(m.proofs[k]) IN e.ok /\ e.run /\ ~e.und
ModuleClause(m) ==
  IF ~ModuleApplicable(m) THEN ""
  ELSE LET f == ModuleFiles(m) IN
       IF ~f.ok THEN "module-tracker-refuses"
       ELSE IF ~Verify(f.files.gamma, f.files.claim, f.files.proof).ok THEN "module-not-verified"
       ELSE ""
=============================================================================
