------------------------------ MODULE ProofExpRun ------------------------------
(***************************************************************************)
(* Compilation of a ProofExp expression into primitive interpreter calls   *)
(* (what executing the ProofThunk does), and its effect on the tracker /   *)
(* serializer (Generator) and on the machine run on the emitted bytes.     *)
(*                                                                         *)
(*   ExprCalls(r):  prop1/2/3, quant     one call                          *)
(*                  mp(a, b)             calls(a) ; calls(b) ; modus_ponens*)
(*                  gen(a, x)            calls(a) ; exists_generalization  *)
(*                  dyn/inst(a, d)       pattern(plug) for every entry of  *)
(*                                       d in map order ; calls(a) ;       *)
(*                                       instantiate   (nothing if d = {}) *)
(* Theorem checked by TLC (MC_ProofExp): for every enumerated expression   *)
(* whose rules are applicable, folding ExprCalls over tracker and machine  *)
(* is accepted at every step, preserves Rel, and leaves exactly the proved *)
(* conclusion Conc(r).c on top of the machine stack.                       *)
(***************************************************************************)
EXTENDS Memo, ProofExp

RECURSIVE ExprCalls(_)
PlugCalls(d) == BuildPlugs(d, 1, [calls |-> <<>>, mem |-> <<>>], {}).calls
ExprCalls(r) ==
  CASE r.k = "prop1" -> <<C0("prop1")>>
    [] r.k = "prop2" -> <<C0("prop2")>>
    [] r.k = "prop3" -> <<C0("prop3")>>
    [] r.k = "quant" -> <<C0("exists_quantifier")>>
    [] r.k = "mp"  -> ExprCalls(r.a) \o ExprCalls(r.b) \o <<CT("modus_ponens", 0, Conc(r.a).c, Conc(r.b).c)>>
    [] r.k = "gen" -> ExprCalls(r.a) \o <<CT("exists_generalization", r.x, Conc(r.a).c, Bot)>>
    [] r.k \in {"dyn", "inst"} ->
         IF r.d = <<>> THEN ExprCalls(r.a)
         ELSE PlugCalls(r.d) \o ExprCalls(r.a) \o <<Call("instantiate", 0, Conc(r.a).c, Bot, r.d, <<>>)>>

G0 == [GInit(<<>>) EXCEPT !.phase = "proof"]
M0 == InitState("proof")
RECURSIVE FoldOK(_, _, _)
FoldOK(g, ms, cs) ==       \* [ok, g, ms]
  IF cs = <<>> THEN [ok |-> TRUE, g |-> g, ms |-> ms]
  ELSE LET r == GStep(g, Head(cs)) IN
       IF ~r.ok THEN [ok |-> FALSE, g |-> g, ms |-> ms]
       ELSE LET m1 == RunPhase(r.bytes, ms) IN
            IF ~m1.ok \/ ~Rel(r.g, m1.st) THEN [ok |-> FALSE, g |-> r.g, ms |-> m1.st]
            ELSE FoldOK(r.g, m1.st, Tail(cs))
Methods(cs) == [k \in 1..Len(cs) |-> cs[k].m]
\* "" or the clause of the theorem that fails
CompileClause(r) ==
  LET e == Conc(r) IN
  IF ~(e.ok /\ e.run /\ ~e.und) THEN ""
  ELSE LET f == FoldOK(G0, M0, ExprCalls(r)) IN
       IF ~f.ok THEN "compile-not-accepted"
       ELSE IF f.ms.stack # <<Prf(Expand(e.c))>> THEN "compile-proves-other"
       ELSE ""
=============================================================================
