------------------------------- MODULE MC_Gen -------------------------------
(***************************************************************************)
(* C04 (A): the tracker/serializer model composed with the machine run on  *)
(* the emitted bytes.  Every DSL call the tracker accepts is applied; the  *)
(* machine executes the bytes the call emitted; Rel is evaluated.  Calls   *)
(* take their operands from the tracker's own stack / memory, exactly as   *)
(* the proof DSL does (values returned by earlier calls).                  *)
(*                                                                         *)
(* `hist` is a witness call sequence for the state (hidden by the VIEW);   *)
(* Export prints every explored transition as  hist + call  so that the    *)
(* harness can replay it on the real SerializingInterpreter.  States in    *)
(* which the machine rejected or Rel is broken are not expanded further    *)
(* (`good` = FALSE); they are reported by the trace validation of the      *)
(* replay, where the verdict on the implementation is made.                *)
(***************************************************************************)
EXTENDS Generator, Json, TLCExt
CONSTANTS MaxStack, MaxSize, MaxDepth, DoExport, ExportAtLevel     \* ExportAtLevel = 0: every transition; k: only transitions out of level k (simulation)
VARIABLES g, mst, good, hist
vars == <<g, mst, good, hist>>

ClaimA == Imp(CMV(0), Imp(CMV(1), CMV(0)))          \* = Prop1
ClaimB == Imp(Imp(Imp(CMV(0), NInst(Mu(0, SV(0)), <<>>)), NInst(Mu(0, SV(0)), <<>>)), CMV(0))   \* = Prop3, with notation
Blank(phase) ==
  [g |-> [GInit(<<ClaimA, ClaimB>>) EXCEPT !.phase = phase],
   mst |-> [InitState(phase) EXCEPT !.claims = IF phase = "proof" THEN <<Expand(ClaimB), Expand(ClaimA)>> ELSE <<>>],
   good |-> TRUE]
IsPublish(c) == c.m \in {"publish_axiom", "publish_claim", "publish_proof"}
IsSwitch(c)  == c.m \in {"into_claim_phase", "into_proof_phase"}
\* one call on a composite state (tracker accepts by construction of Calls; preludes are accepted too)
Apply(w, c) ==
  LET r == GStep(w.g, c)
      m0 == IF IsSwitch(c) THEN [ok |-> TRUE, st |-> NextPhase(w.mst)] ELSE RunPhase(r.bytes, w.mst)
  IN [g |-> r.g, mst |-> m0.st, good |-> r.ok /\ m0.ok /\ Rel(r.g, m0.st)]
RECURSIVE Fold(_, _)
Fold(w, cs) == IF cs = <<>> THEN w ELSE Fold(Apply(w, Head(cs)), Tail(cs))
CleanMV(i) == Call("metavar", i, Bot, Bot, <<>>, <<<<>>, <<>>, <<>>, <<>>, <<>>>>)
Preludes ==
  {<<"gamma", <<>>>>, <<"claim", <<>>>>, <<"proof", <<>>>>,
   <<"proof", <<C1("evar", 0), CleanMV(1), C0("prop1")>>>>,
   <<"proof", <<CleanMV(0), C1("evar", 1)>>>>,
   <<"proof", <<C0("prop3")>>>>,
   <<"proof", <<C0("prop1"), CT("save", 0, Prf(Prop1Ax), Bot), CT("pop", 0, Prf(Prop1Ax), Bot), C1("svar", 0)>>>>,
   <<"gamma", <<C1("symbol", 7), C1("symbol", 5), CT("app", 0, Sym(7), Sym(5))>>>>,
   <<"gamma", <<C1("evar", 0), CT("publish_axiom", 0, EV(0), Bot), C1("evar", 1)>>>>,
   <<"proof", <<C1("svar", 0), CT("mu", 0, SV(0), Bot), Call("instantiate_pattern", 0, Mu(0, SV(0)), Bot, <<>>, <<>>), CleanMV(0)>>>>}
Init == \E pr \in Preludes :
          LET w == Fold(Blank(pr[1]), pr[2]) IN
          /\ g = w.g /\ mst = w.mst /\ good = w.good
          /\ hist = [phase |-> pr[1], calls |-> pr[2]]

S == g.stack
N == Len(S)
E(k) == S[N - k]
IsPat(k) == N > k /\ S[N - k].k = "pat"
IsPrf(k) == N > k /\ S[N - k].k = "prf"
Perm2 == {<<0, 1>>, <<1, 0>>, <<2, 0>>, <<0, 2>>}
Calls ==
  {C1("evar", 0), C1("evar", 1), C1("svar", 0), C1("symbol", 5), C1("symbol", 7), C0("prop1"), C0("prop3"),
   C0("exists_quantifier"), C0("into_claim_phase"),
   Call("metavar", 0, Bot, Bot, <<>>, <<<<>>, <<>>, <<>>, <<>>, <<>>>>),
   Call("metavar", 1, Bot, Bot, <<>>, <<<<>>, <<>>, <<>>, <<>>, <<>>>>),
   Call("metavar", 1, Bot, Bot, <<>>, <<<<0>>, <<>>, <<0>>, <<>>, <<>>>>),
   Call("metavar", 2, Bot, Bot, <<>>, <<<<>>, <<>>, <<>>, <<>>, <<1>>>>)}
  \cup (IF IsPat(0) /\ IsPat(1)
        THEN {CT("implies", 0, E(1).p, E(0).p), CT("app", 0, E(1).p, E(0).p)}
             \cup (IF E(0).p.t \in {"mv", "es", "ss"} THEN {CT("esubst", 0, E(0).p, E(1).p), CT("ssubst", 0, E(0).p, E(1).p), CT("esubst", 1, E(0).p, E(1).p)} ELSE {})
        ELSE {})
  \cup (IF IsPat(0)
        THEN {CT("exists", 0, E(0).p, Bot), CT("exists", 1, E(0).p, Bot), CT("mu", 0, E(0).p, Bot),
              CT("publish_axiom", 0, E(0).p, Bot), CT("publish_claim", 0, E(0).p, Bot),
              Call("instantiate_pattern", 0, E(0).p, Bot, <<>>, <<>>)}
             \cup (IF IsPat(1) THEN {Call("instantiate_pattern", 0, E(0).p, Bot, << <<k, E(1).p>> >>, <<>>) : k \in {0, 1}} ELSE {})
             \cup (IF IsPat(1) /\ IsPat(2)
                   THEN {Call("instantiate_pattern", 0, E(0).p, Bot, << <<ks[1], E(2).p>>, <<ks[2], E(1).p>> >>, <<>>) : ks \in Perm2} ELSE {})
        ELSE {})
  \cup (IF IsPrf(0)
        THEN {CT("exists_generalization", 0, E(0).p, Bot), CT("exists_generalization", 1, E(0).p, Bot),
              CT("publish_proof", 0, E(0).p, Bot), Call("instantiate", 0, E(0).p, Bot, <<>>, <<>>)}
             \cup (IF IsPrf(1) THEN {CT("modus_ponens", 0, E(1).p, E(0).p)} ELSE {})
             \cup (IF IsPat(1) THEN {Call("instantiate", 0, E(0).p, Bot, << <<k, E(1).p>> >>, <<>>) : k \in {0, 1, 2}} ELSE {})
             \cup (IF IsPat(1) /\ IsPat(2)
                   THEN {Call("instantiate", 0, E(0).p, Bot, << <<ks[1], E(2).p>>, <<ks[2], E(1).p>> >>, <<>>) : ks \in Perm2} ELSE {})
        ELSE {})
  \* environment obligation: the caller publishes exactly the declared claims (reversed) before the proof phase
  \cup (IF mst.claims = Reverse([k \in 1..Len(g.claims) |-> Expand(g.claims[k])]) THEN {C0("into_proof_phase")} ELSE {})
  \cup (IF N > 0 THEN {CT("pop", 0, E(0), Bot), CT("save", 0, E(0), Bot)} ELSE {})
  \cup {CT("load", 0, g.memory[k], Bot) : k \in 1..Len(g.memory)}

Next ==
  /\ good
  /\ \E c \in Calls :
       /\ GStep(g, c).ok
       /\ LET w == Apply([g |-> g, mst |-> mst, good |-> good], c) IN
          /\ g' = w.g /\ mst' = w.mst /\ good' = w.good
          /\ hist' = [hist EXCEPT !.calls = Append(@, c)]
Spec == Init /\ [][Next]_vars

Bounded == /\ Len(g.stack) <= MaxStack
           /\ \A k \in 1..Len(g.stack) : Size(Expand(g.stack[k].p)) <= MaxSize
           /\ Len(g.memory) <= 2
           /\ TLCGet("level") <= MaxDepth
View == <<g, mst, good>>
Export == IF DoExport /\ (ExportAtLevel = 0 \/ TLCGet("level") = ExportAtLevel \/ ~good') THEN PrintT("SEQ " \o ToJson([phase |-> hist'.phase, good |-> good', calls |-> hist'.calls])) ELSE TRUE
Bad == ~good          \* counted, not an error: see the module comment
=============================================================================
