------------------------------- MODULE MMVerify -------------------------------
(***************************************************************************)
(* Metamath databases (as abstract syntax, the JSON dump of the toolkit's  *)
(* Database objects), their printing to token sequences, scoping, frames,  *)
(* and the proof-verification stack machine of the Metamath book for       *)
(* compressed proofs (MMCompressed).                                       *)
(*                                                                         *)
(* statement records (field k):                                            *)
(*   c [syms]  v [vars]  d [vars]  f [label, tc, var]  e [label, terms]    *)
(*   a [label, terms]  p [label, terms, listed, letters, ptoks]            *)
(*   b [stmts]  (a block)                                                  *)
(* term: [m |-> name] (variable) or [s |-> symbol, a |-> <<subterms>>]     *)
(***************************************************************************)
EXTENDS MMCompressed, FiniteSets

RECURSIVE TermToks(_), TermsToks(_)
TermToks(t) == IF "m" \in DOMAIN t THEN <<t.m>>
               ELSE IF t.a = <<>> THEN <<t.s>>
               ELSE <<"(", t.s>> \o TermsToks(t.a) \o <<")">>
TermsToks(ts) == IF ts = <<>> THEN <<>> ELSE TermToks(Head(ts)) \o TermsToks(Tail(ts))

(* ---- printing (what Encoder.encode_string must produce, as tokens) ---- *)
RECURSIVE PrintStmt(_), PrintStmts(_)
PrintStmt(st) ==
  CASE st.k = "c" -> <<"$c">> \o st.syms \o <<"$.">>
    [] st.k = "v" -> <<"$v">> \o st.vars \o <<"$.">>
    [] st.k = "d" -> <<"$d">> \o st.vars \o <<"$.">>
    [] st.k = "f" -> <<st.label, "$f", st.tc, st.var, "$.">>
    [] st.k = "e" -> <<st.label, "$e">> \o TermsToks(st.terms) \o <<"$.">>
    [] st.k = "a" -> <<st.label, "$a">> \o TermsToks(st.terms) \o <<"$.">>
    [] st.k = "p" -> <<st.label, "$p">> \o TermsToks(st.terms) \o <<"$=">> \o st.ptoks \o <<"$.">>
    [] st.k = "b" -> <<"${">> \o PrintStmts(st.stmts) \o <<"$}">>
PrintStmts(ss) == IF ss = <<>> THEN <<>> ELSE PrintStmt(Head(ss)) \o PrintStmts(Tail(ss))

(* ---- scoping: walk the database, collect for every $a / $p its frame ---- *)
SetOfSeq(s) == {s[k] : k \in 1..Len(s)}
RECURSIVE VarsIn(_, _)
VarsIn(toks, fvars) == {toks[k] : k \in {j \in 1..Len(toks) : toks[j] \in fvars}}
\* env = [cs, vs (declared sets), hyps (active $f/$e in order), dvs (set of 2-sets), asrt (seq of frames), errs]
HypToks(h) == IF h.k = "f" THEN <<h.tc, h.var>> ELSE TermsToks(h.terms)
Frame(env, st) ==
  LET concl == TermsToks(st.terms)
      fvars == {env.hyps[k].var : k \in {j \in 1..Len(env.hyps) : env.hyps[j].k = "f"}}
      evars == UNION {VarsIn(HypToks(env.hyps[k]), fvars) : k \in {j \in 1..Len(env.hyps) : env.hyps[j].k = "e"}}
      used == VarsIn(concl, fvars) \cup evars
      mand == SelectSeq(env.hyps, LAMBDA h : h.k = "e" \/ h.var \in used)
  IN [label |-> st.label, hyps |-> mand, concl |-> concl, dvs |-> {d \in env.dvs : d \subseteq used}, allhyps |-> env.hyps,
      alldvs |-> env.dvs]
\* every math token of a statement must be a declared constant or a variable with an active $f
Undeclared(env, toks) ==
  LET fvars == {env.hyps[k].var : k \in {j \in 1..Len(env.hyps) : env.hyps[j].k = "f"}} IN
  {toks[k] : k \in 1..Len(toks)} \ (env.cs \cup fvars)
RECURSIVE Walk(_, _)
Walk(env, ss) ==
  IF ss = <<>> THEN env ELSE
  LET st == Head(ss)
      e2 == CASE st.k = "c" -> [env EXCEPT !.cs = @ \cup SetOfSeq(st.syms)]
              [] st.k = "v" -> [env EXCEPT !.vs = @ \cup SetOfSeq(st.vars)]
              [] st.k = "d" -> [env EXCEPT !.dvs = @ \cup ({{x, y} : x \in SetOfSeq(st.vars), y \in SetOfSeq(st.vars)} \ {{x} : x \in SetOfSeq(st.vars)}),
                                           !.errs = @ \cup {<<"undeclared-variable", v>> : v \in SetOfSeq(st.vars) \ env.vs}]
              [] st.k = "f" -> [env EXCEPT !.hyps = Append(@, st),
                                           !.errs = @ \cup (IF st.var \in env.vs THEN {} ELSE {<<"undeclared-variable", st.var>>})
                                                      \cup (IF st.tc \in env.cs THEN {} ELSE {<<"undeclared-constant", st.tc>>})]
              [] st.k = "e" -> [env EXCEPT !.hyps = Append(@, st),
                                           !.errs = @ \cup {<<"undeclared", t>> : t \in Undeclared(env, TermsToks(st.terms))}]
              [] st.k \in {"a", "p"} -> [env EXCEPT !.asrt = Append(@, Frame(env, st)),
                                                    !.errs = @ \cup {<<"undeclared", t>> : t \in Undeclared(env, TermsToks(st.terms))}]
              [] st.k = "b" -> LET inner == Walk(env, st.stmts) IN
                               [env EXCEPT !.asrt = inner.asrt, !.errs = inner.errs]     \* hypotheses, $v and $d are local to the block
  IN Walk(e2, Tail(ss))
EmptyEnv == [cs |-> {}, vs |-> {}, hyps |-> <<>>, dvs |-> {}, asrt |-> <<>>, errs |-> {}]
Analyse(db) == Walk(EmptyEnv, db)
HasFrame(env, label) == \E k \in 1..Len(env.asrt) : env.asrt[k].label = label
FrameOf(env, label) == env.asrt[CHOOSE k \in 1..Len(env.asrt) : env.asrt[k].label = label]
\* frames visible BEFORE a given assertion (a proof may only use earlier ones)
Before(env, label) == LET n == CHOOSE k \in 1..Len(env.asrt) : env.asrt[k].label = label IN SubSeq(env.asrt, 1, n - 1)

(* ---- substitution and the verification machine ---- *)
RECURSIVE SubstToks(_, _)
SubstToks(e, sg) == IF e = <<>> THEN <<>>
                    ELSE (IF Head(e) \in DOMAIN sg THEN sg[Head(e)] ELSE <<Head(e)>>) \o SubstToks(Tail(e), sg)
ApplyFrame(a, st, fvars, tdvs) ==      \* tdvs: the disjoint-variable pairs active for the statement being proved
  LET n == Len(a.hyps) IN
  IF Len(st) < n THEN [ok |-> FALSE, st |-> st] ELSE
  LET base == Len(st) - n
      fl == {i \in 1..n : a.hyps[i].k = "f"}
      sg == [v \in {a.hyps[i].var : i \in fl} |->
               LET i == CHOOSE j \in fl : a.hyps[j].var = v IN Tail(st[base + i])]
      okf == \A i \in fl : st[base + i] # <<>> /\ Head(st[base + i]) = a.hyps[i].tc
      oke == \A i \in (1..n) \ fl : st[base + i] = SubstToks(HypToks(a.hyps[i]), sg)
      okd == \A d \in a.dvs : \A x \in d : \A y \in d : x # y =>
               \A v1 \in VarsIn(sg[x], fvars) : \A v2 \in VarsIn(sg[y], fvars) : v1 # v2 /\ {v1, v2} \in tdvs
  IN IF okf /\ oke /\ okd THEN [ok |-> TRUE, st |-> Append(SubSeq(st, 1, base), SubstToks(a.concl, sg))]
     ELSE [ok |-> FALSE, st |-> st]

\* target: the frame of the $p being verified; earlier: frames usable; listed: label list; steps: numbers (0 = Z)
RECURSIVE Run(_, _, _, _, _, _, _)
Run(target, earlier, listed, steps, k, st, saved) ==
  IF k > Len(steps) THEN [ok |-> st = <<target.concl>>, at |-> 0]
  ELSE
  LET n == steps[k]  m == Len(target.hyps)  l == Len(listed)
      fvars == {target.allhyps[j].var : j \in {i \in 1..Len(target.allhyps) : target.allhyps[i].k = "f"}}
  IN IF n = 0 THEN (IF st = <<>> THEN [ok |-> FALSE, at |-> k] ELSE Run(target, earlier, listed, steps, k + 1, st, Append(saved, st[Len(st)])))
     ELSE IF n <= m THEN Run(target, earlier, listed, steps, k + 1, Append(st, HypToks(target.hyps[n])), saved)
     ELSE IF n <= m + l THEN
          LET lab == listed[n - m]
              hyp == {j \in 1..Len(target.allhyps) : target.allhyps[j].label = lab}
              fr  == {j \in 1..Len(earlier) : earlier[j].label = lab}
          IN IF hyp # {} THEN Run(target, earlier, listed, steps, k + 1, Append(st, HypToks(target.allhyps[CHOOSE j \in hyp : TRUE])), saved)
             ELSE IF fr = {} THEN [ok |-> FALSE, at |-> k]
             ELSE LET r == ApplyFrame(earlier[CHOOSE j \in fr : TRUE], st, fvars, target.alldvs) IN
                  IF r.ok THEN Run(target, earlier, listed, steps, k + 1, r.st, saved) ELSE [ok |-> FALSE, at |-> k]
     ELSE IF n - m - l <= Len(saved) THEN Run(target, earlier, listed, steps, k + 1, Append(st, saved[n - m - l]), saved)
     ELSE [ok |-> FALSE, at |-> k]

\* verify the $p statement pst (record of kind "p") inside database db
VerifyP(db, pst) ==
  LET env == Analyse(db) IN
  IF ~HasFrame(env, pst.label) THEN [ok |-> FALSE, at |-> 0]
  ELSE Run(FrameOf(env, pst.label), Before(env, pst.label), pst.listed, Steps(pst.letters, <<>>), 1, <<>>, <<>>)

RECURSIVE AllP(_)
AllP(ss) == IF ss = <<>> THEN <<>>
            ELSE (IF Head(ss).k = "p" THEN <<Head(ss)>> ELSE IF Head(ss).k = "b" THEN AllP(Head(ss).stmts) ELSE <<>>) \o AllP(Tail(ss))
RECURSIVE FloatOrder(_)
FloatOrder(ss) == IF ss = <<>> THEN <<>>
                  ELSE (IF Head(ss).k = "f" THEN <<Head(ss).label>> ELSE IF Head(ss).k = "b" THEN FloatOrder(Head(ss).stmts) ELSE <<>>) \o FloatOrder(Tail(ss))
=============================================================================
