--------------------------- MODULE Trace_Machine ---------------------------
(***************************************************************************)
(* Code -> spec validation of single machine steps recorded from the Rust  *)
(* checker (family "mstep").  A case is a pre-state, one instruction (as   *)
(* decoded record and as the bytes fed to execute_instructions), the       *)
(* observed outcome and the observed post-state.  Clauses:                 *)
(*   verdict : accept/reject differs from MLMachine!Step      (C05)        *)
(*   state   : accepted, but stack/memory/claims differ       (C05)        *)
(*   decode  : the bytes do not decode to the instruction     (machinery)  *)
(*   unsound : the implementation marked as proved a term that is not a    *)
(*             valid schema relative to the case's theory     (C01)        *)
(* The unsound clause is evaluated on what the IMPLEMENTATION produced.    *)
(***************************************************************************)
EXTENDS MLMachine, MLSemantics, Json, IOUtils, TLCExt
CONSTANTS BlockSize, SemSize, SemMVs
Cases == ndJsonDeserialize(IOEnv.CASES)
VARIABLE blk

Pre(c) == [stack |-> c.stack, memory |-> c.memory, claims |-> c.claims, phase |-> c.phase,
           journal |-> EmptyJournal]
SetOf(s) == {s[k] : k \in 1..Len(s)}
InBudget(p) == Size(p) <= SemSize /\ Cardinality(MVIds(p)) <= SemMVs
NewTopUnsound(c) ==
  /\ c.out = "ok" /\ Len(c.post) > 0
  /\ LET top == c.post[Len(c.post)] IN
     /\ top.k = "prf"
     /\ ~(\E k \in 1..Len(c.stack) : c.stack[k] = top)      \* produced by this step
     /\ InBudget(top.p)
     /\ ~ValidSchemaU(top.p, SetOf(c.gamma), InstUSmall)
CheckCase(i) ==
  LET c == Cases[i]
      d == Decode(c.bytes, 1)
      r == Step(Pre(c), c.ins)
  IN IF ~(d.ok /\ d.ins = c.ins /\ d.next = Len(c.bytes) + 1) THEN "decode"
     ELSE IF NewTopUnsound(c) THEN "unsound"
     ELSE IF r.ok # (c.out = "ok") THEN "verdict"
     ELSE IF r.ok /\ ~(r.st.stack = c.post /\ r.st.memory = c.postmem /\ r.st.claims = c.postclaims) THEN "state"
     ELSE ""
INSTANCE TraceBlocks WITH NCases <- Len(Cases), Check <- CheckCase
=============================================================================
