----------------------------- MODULE Trace_ProofExp -----------------------------
(***************************************************************************)
(* Judges what the toolkit did with the expressions MC_ProofExp generated: *)
(*   static-accepts-inapplicable : the toolkit built an expression whose   *)
(*        rule is statically inapplicable (mp with mismatching antecedent) *)
(*   static-refuses-applicable   : the toolkit refused a valid expression  *)
(*   advertised : ProofThunk.conc differs from the documented conclusion   *)
(*   runs-inapplicable : some interpreter ran an expression whose rule is  *)
(*        inapplicable at run time (generalised variable not fresh)        *)
(*   interpreters-disagree : (substitution undefined by the documented     *)
(*        rules) the interpreter stacks do not all behave alike            *)
(*   fails-applicable : some interpreter failed on an applicable one       *)
(*   returned : an interpreter returned a different conclusion             *)
(*   module-refused / files-gamma / files-claim / files-proof : (whole     *)
(*        modules) the toolkit refused an applicable module, or one of the *)
(*        three files it wrote differs from ModuleFiles(m), the files the  *)
(*        model proves the machine verifies;  rust-rejects : the real      *)
(*        verify() did not accept the files                                *)
(*   calls : the primitive interpreter calls the real ProofThunk made in   *)
(*        the proof phase are not ExprCalls(r) (ProofExpRun), the sequence *)
(*        the model proves to be accepted by the machine                   *)
(***************************************************************************)
EXTENDS ProofExpRun, Json, IOUtils, TLCExt
CONSTANTS BlockSize
VARIABLE blk

Cases == ndJsonDeserialize(IOEnv.CASES)
CheckTrace(i) ==
  LET c == Cases[i]  e == Conc(c.r) IN
  IF ~e.ok THEN (IF c.built THEN "static-accepts-inapplicable" ELSE "")
  ELSE IF ~c.built THEN "static-refuses-applicable"
  ELSE IF e.run /\ Expand(c.advertised) # Expand(e.c) THEN "advertised"
  ELSE LET oks == {k \in 1..Len(c.interps) : c.interps[k].out = "ok"} IN
       IF e.und THEN (IF oks \notin {{}, 1..Len(c.interps)} THEN "interpreters-disagree"
                      ELSE IF \E k \in oks : Len(c.interps[k].concs) # 1 \/ Expand(c.interps[k].concs[1]) # Expand(c.interps[1].concs[1]) THEN "returned"
                      ELSE "")
       ELSE IF ~e.run THEN (IF oks # {} THEN "runs-inapplicable" ELSE "")
       ELSE IF oks # 1..Len(c.interps) THEN "fails-applicable"
       ELSE IF \E k \in oks : Len(c.interps[k].concs) # 1 \/ Expand(c.interps[k].concs[1]) # Expand(e.c) THEN "returned"
       ELSE IF c.hascalls /\ c.calls # Methods(ExprCalls(c.r)) THEN "calls"
       ELSE ""
\* The toolkit's Pattern.instantiate keeps notation nodes inside an instantiated conclusion while Conc expands them, so
\* a claim file may differ in bytes; it must then declare exactly the same claims to the machine.
SameClaims(gamma, real, predicted) ==
  LET g == RunPhase(gamma, InitState("gamma")) IN
  g.ok /\ LET a == RunPhase(real, NextPhase(g.st))  b == RunPhase(predicted, NextPhase(g.st)) IN
          a.ok /\ b.ok /\ a.st.claims = b.st.claims /\ a.st.memory = b.st.memory
CheckModule(i) ==
  LET c == Cases[i]  m == c.m IN
  IF ~ModuleApplicable(m) THEN ""
  ELSE IF ~c.built \/ c.error # "" THEN "module-refused"
  ELSE LET f == ModuleFiles(m).files IN
       IF c.files[1] # f.gamma THEN "files-gamma"
       ELSE IF c.files[2] # f.claim /\ ~SameClaims(c.files[1], c.files[2], f.claim) THEN "files-claim"
       ELSE IF c.files[3] # f.proof THEN "files-proof"
       ELSE IF c.rust # "ok" THEN "rust-rejects"
       ELSE ""
CheckAny(i) == IF "m" \in DOMAIN Cases[i] THEN CheckModule(i) ELSE CheckTrace(i)
INSTANCE TraceBlocks WITH NCases <- Len(Cases), Check <- CheckAny
=============================================================================
