----------------------------- MODULE Trace_ProofExp -----------------------------
(***************************************************************************)
(* Judges what the toolkit did with the expressions MC_ProofExp generated: *)
(*   static-accepts-inapplicable : the toolkit built an expression whose   *)
(*        rule is statically inapplicable (mp with mismatching antecedent) *)
(*   static-refuses-applicable   : the toolkit refused a valid expression  *)
(*   advertised : ProofThunk.conc differs from the documented conclusion   *)
(*   runs-inapplicable : some interpreter ran an expression whose rule is  *)
(*        inapplicable at run time (generalised variable not fresh)        *)
(*   interpreters-disagree : (substitution undefined by the documented     *)
(*        rules) the interpreter stacks do not all behave alike            *)
(*   fails-applicable : some interpreter failed on an applicable one       *)
(*   returned : an interpreter returned a different conclusion             *)
(*   calls : the primitive interpreter calls the real ProofThunk made in   *)
(*        the proof phase are not ExprCalls(r) (ProofExpRun), the sequence *)
(*        the model proves to be accepted by the machine                   *)
(***************************************************************************)
EXTENDS ProofExpRun, Json, IOUtils, TLCExt
CONSTANTS BlockSize
VARIABLE blk

Cases == ndJsonDeserialize(IOEnv.CASES)
CheckTrace(i) ==
  LET c == Cases[i]  e == Conc(c.r) IN
  IF ~e.ok THEN (IF c.built THEN "static-accepts-inapplicable" ELSE "")
  ELSE IF ~c.built THEN "static-refuses-applicable"
  ELSE IF e.run /\ Expand(c.advertised) # Expand(e.c) THEN "advertised"
  ELSE LET oks == {k \in 1..Len(c.interps) : c.interps[k].out = "ok"} IN
       IF e.und THEN (IF oks \notin {{}, 1..Len(c.interps)} THEN "interpreters-disagree"
                      ELSE IF \E k \in oks : Len(c.interps[k].concs) # 1 \/ Expand(c.interps[k].concs[1]) # Expand(c.interps[1].concs[1]) THEN "returned"
                      ELSE "")
       ELSE IF ~e.run THEN (IF oks # {} THEN "runs-inapplicable" ELSE "")
       ELSE IF oks # 1..Len(c.interps) THEN "fails-applicable"
       ELSE IF \E k \in oks : Len(c.interps[k].concs) # 1 \/ Expand(c.interps[k].concs[1]) # Expand(e.c) THEN "returned"
       ELSE IF c.hascalls /\ c.calls # Methods(ExprCalls(c.r)) THEN "calls"
       ELSE ""
INSTANCE TraceBlocks WITH NCases <- Len(Cases), Check <- CheckTrace
=============================================================================
