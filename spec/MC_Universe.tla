----------------------------- MODULE MC_Universe -----------------------------
(* Prints the closed universes as JSON (spec -> code case generation).      *)
EXTENDS MLUniverse, Json, TLCExt
WithExp(S) == {[p |-> p, e |-> Expand(p)] : p \in S}
ASSUME PrintT("U1 " \o ToJson(U1))
ASSUME PrintT("U2S " \o ToJson(U2S))
ASSUME PrintT("NU1 " \o ToJson(WithExp(NU1 \cup NOdd)))
ASSUME PrintT("NU2S " \o ToJson(WithExp(NU2S)))
ASSUME PrintT(<<"SIZES", Cardinality(U1), Cardinality(U2S), Cardinality(NU1 \cup NOdd), Cardinality(NU2S)>>)
VARIABLE x
Spec == x = 0 /\ [][x' = x]_x
=============================================================================
