------------------------------ MODULE MC_Reach ------------------------------
(***************************************************************************)
(* Reachability model of the proof-phase machine: from an empty stack (and *)
(* a memory pre-populated with the axioms of a small concrete theory       *)
(* Gamma) apply any instruction of a finite alphabet.  Invariant SoundTop: *)
(* the term on top of the stack, if marked proved, is a valid schema       *)
(* relative to Gamma.  (Every proved term is on top of the stack in the    *)
(* state where it is created; memory only ever copies the top; so SoundTop *)
(* in every reachable state = every certified term is valid.)              *)
(*                                                                         *)
(* Rejected instructions leave the state unchanged; `last` records the     *)
(* instruction and whether it was accepted, and is hidden by the VIEW.     *)
(* The ACTION_CONSTRAINT Export prints one JSON line per explored          *)
(* transition (accepts and rejects) for replay against the Rust checker.   *)
(***************************************************************************)
EXTENDS MLMachine, MLSemantics, Json, TLCExt

CONSTANTS Alphabet,      \* set of instruction records
          Gamma,         \* set of concrete axioms (valid theory)
          MaxStack, MaxMem, MaxSize, MaxDepth,
          DoExport       \* BOOLEAN

VARIABLES st, last
vars == <<st, last>>

AxSeq == LET RECURSIVE ToSeq(_)
             ToSeq(S) == IF S = {} THEN <<>> ELSE LET a == CHOOSE x \in S : TRUE IN <<Prf(a)>> \o ToSeq(S \ {a})
         IN ToSeq(Gamma)

Init == /\ st = [InitState("proof") EXCEPT !.memory = AxSeq]
        /\ last = [ins |-> I0("Init"), ok |-> TRUE]

Next == \E ins \in Alphabet :
          LET r == Step(st, ins) IN
          /\ st' = r.st
          /\ last' = [ins |-> ins, ok |-> r.ok]

Spec == Init /\ [][Next]_vars

Top == st.stack[Len(st.stack)]
Bounded ==
  /\ Len(st.stack) <= MaxStack
  /\ Len(st.memory) <= MaxMem + Cardinality(Gamma)
  /\ \A k \in 1..Len(st.stack) : Size(st.stack[k].p) <= MaxSize
  /\ TLCGet("level") <= MaxDepth

SoundTop ==
  (Len(st.stack) > 0 /\ Top.k = "prf") => ValidSchemaU(Top.p, Gamma, InstUSmall)

TypeOK ==
  /\ \A k \in 1..Len(st.stack) : st.stack[k].k \in {"pat", "prf"} /\ ~HasAbort(st.stack[k].p)
  /\ st.phase = "proof"

Export ==
  IF DoExport
  THEN PrintT("TRANS " \o ToJson([stack |-> st.stack, memory |-> st.memory, ins |-> last'.ins, ok |-> last'.ok,
                                  post |-> st'.stack, postmem |-> st'.memory]))
  ELSE TRUE

View == st
ASSUME PrintT("ALPHA " \o ToJson(Alphabet))   \* lets the driver run the SAME alphabet on the implementation

-----------------------------------------------------------------------------
(* Alphabets                                                               *)
Ids01 == {0, 1}
AlphaPat == {I1("EVar", 0), I1("EVar", 1), I1("SVar", 0), I1("SVar", 1), I1("Symbol", 0),
             I1("CleanMetaVar", 0), I0("Implies"), I1("Exists", 0), I1("Mu", 0)}
AlphaRules == {I0("Prop1"), I0("Prop3"), I0("Existence"), I0("Quantifier"), I0("ModusPonens"),
               I1("Generalization", 0), I1("Generalization", 1),
               I1("Substitution", 0), I1("Substitution", 1),
               IInst(<<0>>), IInst(<<1>>), IInst(<<0, 1>>), I0("Pop"), I0("Save"), I1("Load", 0)}
AlphaFull == AlphaPat \cup AlphaRules \cup
             {I0("App"), I1("ESubst", 0), I1("SSubst", 0), I0("Prop2"), I1("Load", 1), I0("Publish"),
              IMeta(0, <<0>>, <<>>, <<>>, <<>>, <<>>), IMeta(1, <<>>, <<0>>, <<0>>, <<>>, <<>>)}
\* the alphabet in which the capture defect of the pinned checker is reachable (DESIGN.md 8.1)
AlphaCapture == {I1("EVar", 0), I1("SVar", 0), I1("SVar", 1), I0("Prop1"), I0("Existence"),
                 I0("ModusPonens"), I1("Generalization", 0), I1("Substitution", 0),
                 I1("Substitution", 1), IInst(<<0, 1>>)}
AlphaQuick == AlphaCapture \cup {I1("EVar", 1), I0("Implies"), I1("Exists", 0), I1("Mu", 0),
                                 I1("CleanMetaVar", 0), I0("Prop3"), I0("Quantifier"), IInst(<<0>>),
                                 I1("ESubst", 0), I1("SSubst", 0)}
\* deriving consequences of a published axiom: Load it, build operands, Prop1/MP
AlphaTheory == {I1("Load", 0), I1("Symbol", 0), I1("Symbol", 1), I0("Implies"), I0("Prop1"), I0("ModusPonens"),
                IInst(<<0, 1>>), IInst(<<0>>), I1("Generalization", 0), I1("Substitution", 0), I1("EVar", 0), I1("SVar", 0), I0("Pop")}
GammaEmpty == {}
GammaSmall == {Imp(Sym(0), Sym(1))}
=============================================================================
