----------------------------- MODULE MLMachine -----------------------------
(***************************************************************************)
(* The proof-checking stack machine of docs/proof-language.md, as a pure   *)
(* transition function  Step(state, instruction)  plus the wire format     *)
(* (Decode) and whole-program runs (RunPhase / Verify).  One CASE arm per  *)
(* opcode; every arm either accepts with a new state or rejects.  Nothing  *)
(* is silently ignored.                                                    *)
(*                                                                         *)
(* state = [stack, memory, claims, phase, journal]                         *)
(*   stack   : Seq(entry), top = last; entry = [k : "pat"|"prf", p : term] *)
(*   memory  : Seq(entry)                                                  *)
(*   claims  : Seq(term), the claim STACK (last = next to be discharged)   *)
(*   phase   : "gamma" | "claim" | "proof"                                 *)
(*   journal : [axioms, claims, proved] history of Publish                 *)
(*                                                                         *)
(* Named deviations from the document (see DESIGN.md 3.4):                 *)
(*   MemoryPersists  - one memory across the three phases; Publish in the  *)
(*                     gamma phase appends the axiom to memory as Proved.  *)
(*   Unimplemented   - Frame, KnasterTarski, Propagation*, PreFixpoint,    *)
(*                     Singleton are Reject.                               *)
(*   opcodes 7 = Mu, 8 = Exists (what both implementations decode).        *)
(***************************************************************************)
EXTENDS MLCore

Pat(p) == [k |-> "pat", p |-> p]
Prf(p) == [k |-> "prf", p |-> p]

Ins(op, n, ids, cs) == [op |-> op, n |-> n, ids |-> ids, cs |-> cs]
I0(op)      == Ins(op, 0, <<>>, <<>>)
I1(op, n)   == Ins(op, n, <<>>, <<>>)
IInst(ids)  == Ins("Instantiate", Len(ids), ids, <<>>)
IMeta(i, ef, sf, pos, neg, hol) == Ins("MetaVar", i, <<>>, <<ef, sf, pos, neg, hol>>)

EmptyJournal == [axioms |-> <<>>, claims |-> <<>>, proved |-> <<>>]
InitState(phase) == [stack |-> <<>>, memory |-> <<>>, claims |-> <<>>, phase |-> phase,
                     journal |-> EmptyJournal]

Phi0 == CMV(0)
Phi1 == CMV(1)
Phi2 == CMV(2)
Prop1Ax == Imp(Phi0, Imp(Phi1, Phi0))
Prop2Ax == Imp(Imp(Phi0, Imp(Phi1, Phi2)), Imp(Imp(Phi0, Phi1), Imp(Phi0, Phi2)))
Prop3Ax == Imp(Not(Not(Phi0)), Phi0)
QuantifierAx == Imp(ES(Phi0, 0, EV(1)), Ex(0, Phi0))
ExistenceAx  == Ex(0, EV(0))

UnimplementedOps == {"PropagationOr", "PropagationExists", "PreFixpoint", "Singleton",
                     "Frame", "KnasterTarski"}

(* ----------------------------------------------------------------------- *)
Step(st, ins) ==
  LET S  == st.stack
      n  == Len(S)
      E(k) == S[n - k]                         \* k-th entry from the top, 0 = top
      IsPat(k) == n > k /\ S[n - k].k = "pat"
      IsPrf(k) == n > k /\ S[n - k].k = "prf"
      PopPush(m, e) == [st EXCEPT !.stack = Append(SubSeq(S, 1, n - m), e)]
      PopOnly(m)    == [st EXCEPT !.stack = SubSeq(S, 1, n - m)]
      Ok(s) == [ok |-> TRUE, st |-> s]
      Rej   == [ok |-> FALSE, st |-> st]
      WFPush(m, p) == IF WFNode(p) THEN Ok(PopPush(m, Pat(p))) ELSE Rej
      op == ins.op
  IN
  CASE op = "EVar"    -> Ok(PopPush(0, Pat(EV(ins.n))))
    [] op = "SVar"    -> Ok(PopPush(0, Pat(SV(ins.n))))
    [] op = "Symbol"  -> Ok(PopPush(0, Pat(Sym(ins.n))))
    [] op = "CleanMetaVar" -> Ok(PopPush(0, Pat(CMV(ins.n))))
    [] op = "MetaVar" -> WFPush(0, MV(ins.n, ins.cs[1], ins.cs[2], ins.cs[3], ins.cs[4], ins.cs[5]))
    [] op = "Implies" -> IF IsPat(0) /\ IsPat(1) THEN Ok(PopPush(2, Pat(Imp(E(1).p, E(0).p)))) ELSE Rej
    [] op = "App"     -> IF IsPat(0) /\ IsPat(1) THEN Ok(PopPush(2, Pat(App(E(1).p, E(0).p)))) ELSE Rej
    [] op = "Exists"  -> IF IsPat(0) THEN Ok(PopPush(1, Pat(Ex(ins.n, E(0).p)))) ELSE Rej
    [] op = "Mu"      -> IF IsPat(0) THEN WFPush(1, Mu(ins.n, E(0).p)) ELSE Rej
    [] op = "ESubst"  -> IF IsPat(0) /\ IsPat(1) THEN WFPush(2, ES(E(0).p, ins.n, E(1).p)) ELSE Rej
    [] op = "SSubst"  -> IF IsPat(0) /\ IsPat(1) THEN WFPush(2, SS(E(0).p, ins.n, E(1).p)) ELSE Rej
    [] op = "Prop1"   -> Ok(PopPush(0, Prf(Prop1Ax)))
    [] op = "Prop2"   -> Ok(PopPush(0, Prf(Prop2Ax)))
    [] op = "Prop3"   -> Ok(PopPush(0, Prf(Prop3Ax)))
    [] op = "Quantifier" -> Ok(PopPush(0, Prf(QuantifierAx)))
    [] op = "Existence"  -> Ok(PopPush(0, Prf(ExistenceAx)))
    [] op = "ModusPonens" ->
         IF IsPrf(0) /\ IsPrf(1) /\ E(1).p.t = "imp" /\ E(1).p.l = E(0).p
         THEN Ok(PopPush(2, Prf(E(1).p.r))) ELSE Rej
    [] op = "Generalization" ->
         IF IsPrf(0) /\ E(0).p.t = "imp" /\ EFresh(E(0).p.r, ins.n)
         THEN Ok(PopPush(1, Prf(Imp(Ex(ins.n, E(0).p.l), E(0).p.r)))) ELSE Rej
    [] op = "Substitution" ->
         IF IsPrf(0) /\ IsPat(1)
         THEN LET r == ApplySSubst(E(0).p, ins.n, E(1).p) IN
              IF HasAbort(r) THEN Rej ELSE Ok(PopPush(2, Prf(r)))
         ELSE Rej
    [] op = "Instantiate" ->
         LET m == ins.n IN
         IF Len(ins.ids) = m /\ n >= m + 1 /\ \A k \in 1..m : IsPat(k)
         THEN LET r == Instantiate(E(0).p, ins.ids, [k \in 1..m |-> E(k).p]) IN
              IF HasAbort(r) THEN Rej ELSE Ok(PopPush(m + 1, [k |-> E(0).k, p |-> r]))
         ELSE Rej
    [] op = "Pop"  -> IF n >= 1 THEN Ok(PopOnly(1)) ELSE Rej
    [] op = "Save" -> IF n >= 1 THEN Ok([st EXCEPT !.memory = Append(@, E(0))]) ELSE Rej
    [] op = "Load" -> IF ins.n + 1 <= Len(st.memory)
                      THEN Ok(PopPush(0, st.memory[ins.n + 1])) ELSE Rej
    [] op = "Publish" ->
        (CASE st.phase = "gamma" ->
                IF IsPat(0)
                THEN Ok([PopOnly(1) EXCEPT !.memory = Append(@, Prf(E(0).p)),
                                           !.journal.axioms = Append(@, E(0).p)])
                ELSE Rej
           [] st.phase = "claim" ->
                IF IsPat(0)
                THEN Ok([PopOnly(1) EXCEPT !.claims = Append(@, E(0).p),
                                           !.journal.claims = Append(@, E(0).p)])
                ELSE Rej
           [] st.phase = "proof" ->
                IF IsPrf(0) /\ Len(st.claims) >= 1 /\ st.claims[Len(st.claims)] = E(0).p
                THEN Ok([PopOnly(1) EXCEPT !.claims = SubSeq(@, 1, Len(@) - 1),
                                           !.journal.proved = Append(@, E(0).p)])
                ELSE Rej)
    [] OTHER -> Rej          \* Unimplemented / unknown

(* Phase switch: the stack is cleared, memory and claims persist.          *)
NextPhase(st) == [st EXCEPT !.stack = <<>>,
                            !.phase = IF st.phase = "gamma" THEN "claim" ELSE "proof"]

(* ----------------------------------------------------------------------- *)
(* Wire format                                                             *)
OpName(b) ==
  CASE b = 2 -> "EVar" [] b = 3 -> "SVar" [] b = 4 -> "Symbol" [] b = 5 -> "Implies"
    [] b = 6 -> "App" [] b = 7 -> "Mu" [] b = 8 -> "Exists" [] b = 9 -> "MetaVar"
    [] b = 10 -> "ESubst" [] b = 11 -> "SSubst" [] b = 12 -> "Prop1" [] b = 13 -> "Prop2"
    [] b = 14 -> "Prop3" [] b = 15 -> "Quantifier" [] b = 16 -> "PropagationOr"
    [] b = 17 -> "PropagationExists" [] b = 18 -> "PreFixpoint" [] b = 19 -> "Existence"
    [] b = 20 -> "Singleton" [] b = 21 -> "ModusPonens" [] b = 22 -> "Generalization"
    [] b = 23 -> "Frame" [] b = 24 -> "Substitution" [] b = 25 -> "KnasterTarski"
    [] b = 26 -> "Instantiate" [] b = 27 -> "Pop" [] b = 28 -> "Save" [] b = 29 -> "Load"
    [] b = 30 -> "Publish" [] b = 137 -> "CleanMetaVar"
    [] OTHER -> "Bad"
OneOperand == {"EVar", "SVar", "Symbol", "Mu", "Exists", "ESubst", "SSubst", "Generalization",
               "Substitution", "Load", "CleanMetaVar"}

Malformed == [ok |-> FALSE, ins |-> I0("Bad"), next |-> 0]
\* read a length-prefixed list starting at position i: [ok, l, next]
ReadList(bs, i) ==
  IF i > Len(bs) THEN [ok |-> FALSE, l |-> <<>>, next |-> i]
  ELSE LET len == bs[i] IN
       IF i + len > Len(bs) THEN [ok |-> FALSE, l |-> <<>>, next |-> i]
       ELSE [ok |-> TRUE, l |-> SubSeq(bs, i + 1, i + len), next |-> i + len + 1]
\* decode the instruction that starts at position i (1-based) of byte sequence bs
Decode(bs, i) ==
  LET op == OpName(bs[i]) IN
  IF op = "Bad" THEN Malformed
  ELSE IF op \in OneOperand
       THEN IF i + 1 > Len(bs) THEN Malformed
            ELSE [ok |-> TRUE, ins |-> I1(op, bs[i + 1]), next |-> i + 2]
  ELSE IF op = "Instantiate"
       THEN LET r == ReadList(bs, i + 1) IN
            IF r.ok THEN [ok |-> TRUE, ins |-> IInst(r.l), next |-> r.next] ELSE Malformed
  ELSE IF op = "MetaVar"
       THEN IF i + 1 > Len(bs) THEN Malformed ELSE
            LET r1 == ReadList(bs, i + 2) IN IF ~r1.ok THEN Malformed ELSE
            LET r2 == ReadList(bs, r1.next) IN IF ~r2.ok THEN Malformed ELSE
            LET r3 == ReadList(bs, r2.next) IN IF ~r3.ok THEN Malformed ELSE
            LET r4 == ReadList(bs, r3.next) IN IF ~r4.ok THEN Malformed ELSE
            LET r5 == ReadList(bs, r4.next) IN IF ~r5.ok THEN Malformed ELSE
            [ok |-> TRUE, ins |-> IMeta(bs[i + 1], r1.l, r2.l, r3.l, r4.l, r5.l), next |-> r5.next]
  ELSE [ok |-> TRUE, ins |-> I0(op), next |-> i + 1]

OpByte(op) == CHOOSE b \in (2..30) \cup {137} : OpName(b) = op
Encode(ins) ==
  IF ins.op \in OneOperand THEN <<OpByte(ins.op), ins.n>>
  ELSE IF ins.op = "Instantiate" THEN <<26, Len(ins.ids)>> \o ins.ids
  ELSE IF ins.op = "MetaVar"
       THEN <<9, ins.n>> \o <<Len(ins.cs[1])>> \o ins.cs[1] \o <<Len(ins.cs[2])>> \o ins.cs[2]
              \o <<Len(ins.cs[3])>> \o ins.cs[3] \o <<Len(ins.cs[4])>> \o ins.cs[4]
              \o <<Len(ins.cs[5])>> \o ins.cs[5]
  ELSE <<OpByte(ins.op)>>

(* Run a whole byte string in the phase of st: [ok, st, at] (at = position *)
(* of the failing instruction, 0 if none).                                 *)
RECURSIVE RunFrom(_, _, _)
RunFrom(bs, i, st) ==
  IF i > Len(bs) THEN [ok |-> TRUE, st |-> st, at |-> 0]
  ELSE LET d == Decode(bs, i) IN
       IF ~d.ok THEN [ok |-> FALSE, st |-> st, at |-> i]
       ELSE LET r == Step(st, d.ins) IN
            IF ~r.ok THEN [ok |-> FALSE, st |-> st, at |-> i]
            ELSE RunFrom(bs, d.next, r.st)
RunPhase(bs, st) == RunFrom(bs, 1, st)

(* The three-phase verification: accept iff all phases run and no claim is *)
(* left.  Result: [ok, st, phase] (phase in which it failed, or "end").    *)
Verify(gamma, claim, proof) ==
  LET r1 == RunPhase(gamma, InitState("gamma")) IN
  IF ~r1.ok THEN [ok |-> FALSE, st |-> r1.st, where |-> "gamma"] ELSE
  LET r2 == RunPhase(claim, NextPhase(r1.st)) IN
  IF ~r2.ok THEN [ok |-> FALSE, st |-> r2.st, where |-> "claim"] ELSE
  LET r3 == RunPhase(proof, NextPhase(r2.st)) IN
  IF ~r3.ok THEN [ok |-> FALSE, st |-> r3.st, where |-> "proof"] ELSE
  IF r3.st.claims # <<>> THEN [ok |-> FALSE, st |-> r3.st, where |-> "end"]
  ELSE [ok |-> TRUE, st |-> r3.st, where |-> "end"]
=============================================================================
