----------------------------- MODULE Trace_Lemma -----------------------------
(***************************************************************************)
(* Recorded applications of library entry points (propositional.py,        *)
(* tautology.py) and of proof expressions under every interpreter stack.   *)
(*                                                                         *)
(* C10  schema : the advertised schema is the entry point's DOCSTRING,     *)
(*      parsed into premise / conclusion patterns over schema variables    *)
(*      (metavariables >= 100).  The binding sigma is forced by the        *)
(*      pattern arguments (bind) and by matching the premise schemas       *)
(*      against the actual premise conclusions; the thunk's conclusion     *)
(*      must be exactly the conclusion schema under sigma.                 *)
(*      rules  : the run uses only pattern construction, Prop1-3, modus    *)
(*      ponens, instantiation, Load/Save/Pop and Publish.                  *)
(* C08  interp-outcome / interp-conclusion : every interpreter stack       *)
(*      succeeds or every one fails; all conclusions equal the advertised  *)
(*      ProofThunk.conc.                                                   *)
(***************************************************************************)
EXTENDS MLCore, Json, IOUtils, TLCExt, SequencesExt
CONSTANTS BlockSize
VARIABLE blk
Cases == ndJsonDeserialize(IOEnv.CASES)

KVFun(kv) == LET ks == {kv[j][1] : j \in 1..Len(kv)} IN
             [k \in ks |-> Expand(kv[CHOOSE j \in 1..Len(kv) : kv[j][1] = k][2])]
RECURSIVE MatchList(_, _, _)
MatchList(pats, inss, sg) ==
  IF pats = <<>> \/ ~sg.ok THEN sg
  ELSE MatchList(Tail(pats), Tail(inss), MatchG(Expand(Head(pats)), Expand(Head(inss)), sg))
Allowed == {"evar", "svar", "symbol", "metavar", "implies", "app", "exists", "mu", "esubst", "ssubst",
            "instantiate_pattern", "prop1", "prop2", "prop3", "modus_ponens", "instantiate", "load", "save", "pop",
            "publish_axiom", "publish_claim", "publish_proof", "into_claim_phase", "into_proof_phase"}
CheckCase(i) ==
  LET c == Cases[i] IN
  IF c.fam = "schema" THEN
       LET s1 == MatchList(c.prem_schema, c.premises, MState(KVFun(c.bind)))
           s2 == MatchG(Expand(c.conc_schema), Expand(c.conc), s1)
       IN IF ~s1.ok THEN "premise-shape"            \* machinery: premises were generated from the schema
          ELSE IF ~s2.ok THEN "schema"
          ELSE IF \E k \in 1..Len(c.methods) : c.methods[k] \notin Allowed THEN "rules"
          ELSE ""
  ELSE \* fam = "interps"
       LET oks == {k \in 1..Len(c.interps) : c.interps[k].out = "ok"} IN
       IF oks # {} /\ oks # 1..Len(c.interps) THEN "interp-outcome"
       ELSE IF \E k \in oks : \E j \in 1..Len(c.interps[k].concs) :
                  Expand(c.interps[k].concs[j]) # Expand(c.advertised[j]) THEN "interp-conclusion"
       ELSE IF \E k \in oks : Len(c.interps[k].concs) # Len(c.advertised) THEN "interp-conclusion"
       ELSE ""
INSTANCE TraceBlocks WITH NCases <- Len(Cases), Check <- CheckCase
=============================================================================
