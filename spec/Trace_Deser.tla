----------------------------- MODULE Trace_Deser -----------------------------
(***************************************************************************)
(* C14.  deserialize_instructions(bytes) driving a fresh tracing           *)
(* serializer.  The deserialiser is a second implementation of the wire    *)
(* format (MLMachine!Decode) composed with the generator (one interpreter  *)
(* call per instruction).  Clauses:                                        *)
(*   malformed-accepted : the byte string does not decode completely       *)
(*        (truncated operand, unknown or zero opcode) but no error was     *)
(*        reported                                                         *)
(*   raised-on-valid : the byte string was produced by the serialiser, the *)
(*        machine accepts it, and the deserialiser raised                  *)
(*   bytes : the calls made on the fresh serializer re-emit a different    *)
(*        byte string (= not the same sequence of machine steps)           *)
(*   state : final stack top / length / memory / claims of the fresh       *)
(*        interpreter differ from the machine run on the input             *)
(*   orig-state : ... or from the state of the interpreter that produced   *)
(*        the bytes (serialise -> deserialise round trip)                  *)
(* PyPublishKeepsTop applies: published terms stay on the tracker stack.   *)
(***************************************************************************)
EXTENDS Generator, Json, IOUtils, TLCExt
CONSTANTS BlockSize
VARIABLE blk
Cases == ndJsonDeserialize(IOEnv.CASES)
ExpSeq(s) == [k \in 1..Len(s) |-> Expand(s[k])]

\* decode the whole string: [ok, n (instructions), pubs (number of Publish), emittable]
Emittable == {"EVar", "SVar", "Symbol", "Implies", "App", "Mu", "Exists", "MetaVar", "CleanMetaVar", "ESubst", "SSubst",
              "Prop1", "Prop2", "Prop3", "Quantifier", "ModusPonens", "Generalization", "Instantiate", "Pop", "Save",
              "Load", "Publish"}
\* the serialiser writes the keys of a mapping: an Instantiate with a repeated id is not in its image
CanEmit(ins) == ins.op = "Instantiate" => \A a \in 1..Len(ins.ids) : \A b \in 1..Len(ins.ids) : a # b => ins.ids[a] # ins.ids[b]
RECURSIVE Scan(_, _, _, _)
Scan(bs, i, pubs, emit) ==
  IF i > Len(bs) THEN [ok |-> TRUE, pubs |-> pubs, emit |-> emit]
  ELSE LET d == Decode(bs, i) IN
       IF ~d.ok THEN [ok |-> FALSE, pubs |-> pubs, emit |-> emit]
       ELSE Scan(bs, d.next, IF d.ins.op = "Publish" THEN pubs + 1 ELSE pubs, emit /\ d.ins.op \in Emittable /\ CanEmit(d.ins))

\* instruction sequence with symbol ids renumbered in first-use order (a phase file is not self-contained
\* w.r.t. symbol numbers: the table is shared by the three files)
RECURSIVE NormIns(_, _, _)
NormIns(bs, i, seen) ==
  IF i > Len(bs) THEN <<>>
  ELSE LET d == Decode(bs, i) IN
       IF ~d.ok THEN << I0("Bad") >>
       ELSE IF d.ins.op = "Symbol"
            THEN LET known == \E k \in 1..Len(seen) : seen[k] = d.ins.n
                     seen2 == IF known THEN seen ELSE Append(seen, d.ins.n)
                     id == (CHOOSE k \in 1..Len(seen2) : seen2[k] = d.ins.n) - 1
                 IN <<I1("Symbol", id)>> \o NormIns(bs, d.next, seen2)
            ELSE <<d.ins>> \o NormIns(bs, d.next, seen)
RECURSIVE NoSyms(_)
NoSyms(p) == CASE p.t = "sym" -> FALSE
               [] p.t \in {"imp", "app"} -> NoSyms(p.l) /\ NoSyms(p.r)
               [] p.t \in {"ex", "mu"} -> NoSyms(p.p)
               [] p.t \in {"es", "ss"} -> NoSyms(p.p) /\ NoSyms(p.g)
               [] OTHER -> TRUE
\* the deserialiser names symbol id n  str(n); the harness maps that name back to n: no renaming needed
SameE(e, m) == e.k = m.k /\ Expand(e.p) = m.p

CheckCase(i) ==
  LET c == Cases[i]
      sc == Scan(c.bytes, 1, 0, TRUE)
      st0 == [InitState(c.phase) EXCEPT !.claims = IF c.phase = "proof" THEN Reverse(ExpSeq(c.claims)) ELSE <<>>]
      r == IF sc.ok THEN RunPhase(c.bytes, st0) ELSE [ok |-> FALSE, st |-> st0, at |-> 0]
  IN IF ~sc.ok THEN (IF c.out = "ok" THEN "malformed-accepted" ELSE "")
     ELSE IF ~r.ok THEN ""                                   \* well-formed bytes the machine rejects: any outcome
     ELSE IF ~sc.emit THEN ""                                \* instructions the serialiser never emits
     \* a raise is only wrong on a stream the serialiser really produced: a mutated stream can be valid for the machine and
     \* still outside the serialiser's image for a reason that depends on the state (e.g. Instantiate with no ids while other
     \* entries lie below the proof, which the tracker refuses)
     ELSE IF c.out # "ok" THEN (IF c.produced THEN "raised-on-valid" ELSE "")
     ELSE IF c.rebytes # c.bytes /\ NormIns(c.rebytes, 1, <<>>) # NormIns(c.bytes, 1, <<>>) THEN "bytes"
     ELSE IF c.final.len # Len(r.st.stack) + sc.pubs THEN "state"
     ELSE IF Len(r.st.stack) > 0 /\ sc.pubs = 0 /\ ~SameE(c.final.top, r.st.stack[Len(r.st.stack)]) THEN "state"
     ELSE IF Len(c.final.memory) # Len(r.st.memory) THEN "state"
     ELSE IF \E k \in 1..Len(r.st.memory) : ~SameE(c.final.memory[k], r.st.memory[k]) THEN "state"
     ELSE IF c.phase = "proof" /\ ExpSeq(c.final.claims) # Reverse(r.st.claims) THEN "state"
     \* the interpreter that PRODUCED the bytes ended with this top of stack (symbols renamed to wire ids)
     ELSE IF c.orig.has /\ (c.orig.len # c.final.len \/ c.orig.top.k # c.final.top.k \/ Expand(c.orig.top.p) # Expand(c.final.top.p)) THEN "orig-state"
     ELSE ""
INSTANCE TraceBlocks WITH NCases <- Len(Cases), Check <- CheckCase
=============================================================================
