-------------------------------- MODULE Trace_K --------------------------------
(***************************************************************************)
(* C20.  K execution traces as chained rewrite proofs.                     *)
(*                                                                         *)
(* KRewrite: state (cur, claims); RewriteEvent(rule, sigma) is enabled iff *)
(* the rule is a kore-rewrites pattern whose instantiated left-hand side   *)
(* is the current configuration; it appends the instantiated rule to the   *)
(* claims and moves to the instantiated right-hand side; otherwise the     *)
(* only conforming outcome is a refusal.  One recorded trace = one case,   *)
(* consumed step by step by Walk.  Clauses:                                *)
(*   accepted-mismatch : a step that does not start at the current         *)
(*                       configuration (or is no rewrite rule) was accepted*)
(*   refused-valid     : a matching step was refused                       *)
(*   claims / cur / axioms / proofs : bookkeeping after an accepted step   *)
(*   chained           : lhs of claim k+1 # rhs of claim k (or first lhs   *)
(*                       # initial configuration)                          *)
(*   varmap            : Kore variables -> metavariables not injective     *)
(*   conv-refused      : converting a ground substitution for all variables *)
(*                       of a rule (or the substituted rule) raised         *)
(*   conv-commute      : instantiate(convert(rule), convert(sigma)) #      *)
(*                       convert(rule sigma)                               *)
(*   llvm-verdict / llvm-claims : the same through get_proof_hints        *)
(*   hints-verdict / hints-claims : ExecutionProofExp.from_proof_hints on  *)
(*                       the same trace (with the post-configurations the  *)
(*                       trace reports, possibly stale) disagrees with the *)
(*                       step-by-step run                                  *)
(***************************************************************************)
EXTENDS MLCore, Json, IOUtils, TLCExt, SequencesExt
CONSTANTS BlockSize
VARIABLE blk
Cases == ndJsonDeserialize(IOEnv.CASES)

ExpSeq(s) == [k \in 1..Len(s) |-> Expand(s[k])]
IsRewrite(c, p) == p.t = "inst" /\ p.p = c.rewrites_def /\ Len(p.d) = 3
Arg(p, k) == p.d[k + 1][2]              \* argument k of a notation application
InstRule(st) == LET ids == [k \in 1..Len(st.subst) |-> st.subst[k][1]]
                    vals == [k \in 1..Len(st.subst) |-> Expand(st.subst[k][2])] IN
                \* instantiate the ARGUMENTS of the rewrite notation (keeps the notation node, like the toolkit)
                [k \in 0..2 |-> InstNoCheck(Expand(Arg(st.rule, k)), ids, vals)]
Chained(c, claims) ==
  /\ (Len(claims) > 0 => Expand(Arg(claims[1], 1)) = Expand(c.init))
  /\ \A k \in 1..(Len(claims) - 1) : Expand(Arg(claims[k + 1], 1)) = Expand(Arg(claims[k], 2))

RECURSIVE Walk(_, _, _, _, _)
Walk(c, k, cur, nclaims, prevclaims) ==
  IF k > Len(c.steps) THEN "" ELSE
  LET st == c.steps[k]
      isrw == IsRewrite(c, st.rule)
      ir == InstRule(st)
      applicable == isrw /\ ir[1] = cur
  IN IF st.out # "ok"
     THEN IF applicable /\ st.rule.t = "inst"
          THEN (IF \E j \in 1..Len(st.claims_after) : [q \in 0..2 |-> Expand(Arg(st.claims_after[j], q))] = ir
                THEN "refused-valid-repeated-step"      \* the same rule instance occurred earlier in the trace
                ELSE "refused-valid")
          ELSE IF ExpSeq(st.claims_after) # prevclaims THEN "claims"           \* a refused step must leave no claim behind
          ELSE Walk(c, k + 1, cur, nclaims, prevclaims)
     ELSE IF ~applicable THEN "accepted-mismatch"
     ELSE IF Len(st.claims_after) # nclaims + 1 THEN "claims"
     ELSE IF ~(\A j \in 1..Len(st.claims_after) : IsRewrite(c, st.claims_after[j])) THEN "claims"
     ELSE IF [j \in 0..2 |-> Expand(Arg(st.claims_after[nclaims + 1], j))] # ir THEN "claims"
     ELSE IF SubSeq(ExpSeq(st.claims_after), 1, nclaims) # prevclaims THEN "claims"
     ELSE IF Expand(st.cur_after) # ir[2] THEN "cur"
     ELSE IF ~Chained(c, st.claims_after) THEN "chained"
     ELSE IF ~(\E j \in 1..Len(st.axioms_after) : Expand(st.axioms_after[j]) = Expand(st.rule)) THEN "axioms"
     ELSE IF st.nproofs_after # nclaims + 1 THEN "proofs"
     ELSE IF Expand(st.conv_substituted) # Expand(NInst(st.rule.p, <<<<0, ir[0]>>, <<1, ir[1]>>, <<2, ir[2]>>>>)) THEN "conv-commute"
     ELSE Walk(c, k + 1, ir[2], nclaims + 1, ExpSeq(st.claims_after))

\* every rule with a ground substitution for all of its variables: instantiate(convert(rule), convert(sigma)) = convert(rule sigma)
ConvCommutes(cv) ==
  LET ids == [k \in 1..Len(cv.subst) |-> cv.subst[k][1]]
      vals == [k \in 1..Len(cv.subst) |-> Expand(cv.subst[k][2])]
  IN InstNoCheck(Expand(cv.rule), ids, vals) = Expand(cv.conv_substituted)
Injective(vm) == \A a \in 1..Len(vm) : \A b \in 1..Len(vm) : (vm[a][1] = vm[b][1]) = (vm[a][2] = vm[b][2])
CheckCase(i) ==
  LET c == Cases[i] IN
  IF c.out # "ok" THEN "definition-refused"
  ELSE IF \E k \in 1..Len(c.convs) : ~Injective(c.convs[k].varmap) THEN "varmap"
  ELSE IF \E k \in 1..Len(c.convs) : c.convs[k].error # "" THEN "conv-refused"      \* a ground substitution for all variables of the rule was refused
  ELSE IF \E k \in 1..Len(c.convs) : c.convs[k].has /\ ~ConvCommutes(c.convs[k]) THEN "conv-commute"
  ELSE LET w == Walk(c, 1, Expand(c.init), 0, <<>>)
           allok == \A k \in 1..Len(c.steps) : c.steps[k].out = "ok" IN
       IF w # "" THEN w
       \* the whole trace through from_proof_hints: accepted iff every step is (the per-step outcomes were just validated),
       \* whatever configurations the trace itself reports, and then it claims the same instantiated rules in order
       ELSE IF Len(c.steps) = 0 THEN ""
       ELSE IF (c.hints_out = "ok") # allok THEN "hints-verdict"
       ELSE IF allok /\ ExpSeq(c.hints_claims) # ExpSeq(c.steps[Len(c.steps)].claims_after) THEN "hints-claims"
       \* the same trace as an LLVMRewriteTrace (rule events, configurations, interleaved function / hook events) through
       \* get_proof_hints: nothing may be dropped or reordered
       ELSE IF (c.llvm_out = "ok") # allok THEN "llvm-verdict"
       ELSE IF allok /\ ExpSeq(c.llvm_claims) # ExpSeq(c.steps[Len(c.steps)].claims_after) THEN "llvm-claims"
       ELSE ""
INSTANCE TraceBlocks WITH NCases <- Len(Cases), Check <- CheckCase
=============================================================================
