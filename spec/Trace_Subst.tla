----------------------------- MODULE Trace_Subst -----------------------------
(***************************************************************************)
(* C11.  Substitution and instantiation.                                   *)
(*                                                                         *)
(* Mode "spec": theorems of the specification on closed universes, which   *)
(* make MLCore's operators a textbook reference rather than a copy of the  *)
(* code: the substitution lemma of the finite-model semantics, identity on *)
(* absent variables, agreement of the machine's strict substitution with   *)
(* the textbook one wherever both are defined, composition of Inst.        *)
(* Mode "trace": recorded calls of apply_esubst / apply_ssubst /           *)
(* instantiate (Rust and Python) and composition experiments.  Clauses:    *)
(*   raised   : implementation failed although the spec result is defined  *)
(*   result   : result differs from the spec operator (after notation      *)
(*              expansion, modulo redundant pending substitutions)         *)
(*   compose  : instantiate twice differs from instantiate once with the   *)
(*              composed map (on the implementation's own outputs)         *)
(*   strictness (Rust only, reported under C05): implementation accepted a *)
(*              substitution the machine must reject, or vice versa        *)
(* Where the spec result is Abort (capture / violated constraint) the      *)
(* property says nothing and Python's outcome is not judged.               *)
(***************************************************************************)
EXTENDS MLSemantics, MLUniverse, Json, IOUtils, TLCExt, SequencesExt
CONSTANTS BlockSize, Mode
VARIABLE blk

\* drop pending substitutions whose variable is declared fresh in the body
RECURSIVE Norm(_)
Norm(p) ==
  CASE p.t \in {"imp", "app"} -> [p EXCEPT !.l = Norm(p.l), !.r = Norm(p.r)]
    [] p.t \in {"ex", "mu"}   -> [p EXCEPT !.p = Norm(p.p)]
    [] p.t = "es" -> LET b == Norm(p.p) IN IF EFresh(b, p.v) THEN b ELSE ES(b, p.v, Norm(p.g))
    [] p.t = "ss" -> LET b == Norm(p.p) IN IF SFresh(b, p.v) THEN b ELSE SS(b, p.v, Norm(p.g))
    [] OTHER -> p
Same(a, b) == Norm(Expand(a)) = Norm(b)

\* ---------------- spec mode ----------------
CU == {EV(0), EV(1), SV(0), SV(1), Sym(0)}
CU1 == CU \cup {Imp(a, b) : a \in CU, b \in CU} \cup {App(a, b) : a \in {EV(0), SV(0)}, b \in {EV(1), SV(1)}}
          \cup {Ex(v, a) : v \in Ids, a \in CU} \cup {Mu(v, a) : v \in Ids, a \in {EV(0), SV(1), Sym(0)}}
CU2 == CU1 \cup {Imp(a, b) : a \in CU1, b \in {EV(0), SV(0)}} \cup {Ex(v, a) : v \in Ids, a \in CU1}
           \cup {Mu(v, a) : v \in Ids, a \in {q \in CU1 : CPos(q, 0) /\ CPos(q, 1)}}
Plugs == {EV(0), EV(1), SV(0), SV(1), Imp(SV(0), EV(1)), Ex(0, EV(1)), Mu(1, SV(0))}
SpecCases == SetToSeq(CU2)
D2 == 1..2
AppTables == {[z \in D2 \X D2 |-> {z[1]}], [z \in D2 \X D2 |-> IF z[1] = z[2] THEN D2 ELSE {}],
              [z \in D2 \X D2 |-> {3 - z[2]}]}
ModelsFor(q) == {[dom |-> D2, sym |-> [i \in {0} |-> s], app |-> am] :
                   s \in SUBSET D2, am \in IF HasApp(q) THEN AppTables ELSE {[z \in D2 \X D2 |-> {}]}}
Valns == [e : [Ids -> D2], s : [Ids -> SUBSET D2]]
ELemma(p, x, y) ==    \* plug = element variable y (functional)
  LET r == TbESubst(p, x, EV(y)) IN
  HasAbort(r) \/ ~MuOK(r) \/ \A M \in ModelsFor(p) : \A vl \in Valns :
      Eval(r, M, vl.e, vl.s) = Eval(p, M, [vl.e EXCEPT ![x] = vl.e[y]], vl.s)
SLemma(p, X, g) ==
  LET r == TbSSubst(p, X, g) IN
  HasAbort(r) \/ ~MuOK(r) \/ ~MuOK(p) \/ HasApp(g) \/ \A M \in ModelsFor(p) : \A vl \in Valns :
      Eval(r, M, vl.e, vl.s) = Eval(p, M, vl.e, [vl.s EXCEPT ![X] = Eval(g, M, vl.e, vl.s)])
CheckSpec(i) ==
  LET p == SpecCases[i] IN
  IF ~(\A x \in Ids : \A y \in Ids : MuOK(p) => ELemma(p, x, y)) THEN "esubst-lemma"
  ELSE IF ~(\A X \in Ids : \A g \in Plugs : SLemma(p, X, g)) THEN "ssubst-lemma"
  ELSE IF ~(\A x \in Ids : \A g \in Plugs : (x \notin FVe(p) => TbESubst(p, x, g) = p)
                                           /\ (x \notin FVs(p) => TbSSubst(p, x, g) = p)) THEN "identity"
  ELSE IF ~(\A x \in Ids : \A g \in Plugs :
              LET a == ApplyESubst(p, x, g)  b == ApplySSubst(p, x, g) IN
              (HasAbort(a) \/ a = TbESubst(p, x, g)) /\ (HasAbort(b) \/ b = TbSSubst(p, x, g))) THEN "strict-vs-textbook"
  ELSE ""

\* ---------------- trace mode ----------------
Cases == IF Mode = "trace" THEN ndJsonDeserialize(IOEnv.CASES) ELSE <<>>
ExpSeq(s) == [k \in 1..Len(s) |-> Expand(s[k])]
CheckTrace(i) ==
  LET c == Cases[i] IN
  IF c.fn = "compose"
  THEN IF c.out # "ok" THEN ""                      \* some step raised: nothing to compare
       ELSE IF LET a == Instantiate(Expand(c.p), Keys(c.d1), ExpSeq(Vals(c.d1))) IN
               HasAbort(a) \/ HasAbort(Instantiate(a, Keys(c.d2), ExpSeq(Vals(c.d2)))) THEN ""   \* a constraint is violated
       ELSE IF HasAbort(Expand(c.r12)) \/ HasAbort(Expand(c.rc)) THEN ""
       ELSE IF Norm(Expand(c.r12)) # Norm(Expand(c.rc)) THEN "compose" ELSE ""
  ELSE
  LET p == Expand(c.p)
      exp == CASE c.fn = "esubst" -> ApplyESubst(p, c.x, Expand(c.g))
               [] c.fn = "ssubst" -> ApplySSubst(p, c.x, Expand(c.g))
               [] c.fn = "inst"   -> IF c.impl = "rust" THEN Instantiate(p, c.ids, ExpSeq(c.plugs))
                                     ELSE InstNoCheck(p, c.ids, ExpSeq(c.plugs))
  IN IF HasAbort(p) \/ (c.fn # "inst" /\ HasAbort(Expand(c.g))) THEN ""
     ELSE IF HasAbort(exp)
          THEN IF c.impl = "rust" /\ c.out = "ok" THEN "strictness" ELSE ""
     ELSE IF c.out # "ok" THEN (IF c.impl = "rust" THEN "strictness" ELSE "raised")
     ELSE IF HasAbort(Expand(c.res)) THEN ""
     ELSE IF ~Same(c.res, exp) THEN "result"
     ELSE ""
N == IF Mode = "trace" THEN Len(Cases) ELSE Len(SpecCases)
CheckAny(i) == IF Mode = "trace" THEN CheckTrace(i) ELSE CheckSpec(i)
INSTANCE TraceBlocks WITH NCases <- N, Check <- CheckAny
=============================================================================
