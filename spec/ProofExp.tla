------------------------------- MODULE ProofExp -------------------------------
(***************************************************************************)
(* The proof DSL of ProofExp as terms, and the conclusion each expression  *)
(* advertises according to the DOCUMENTED rules (MLMachine axioms, modus   *)
(* ponens, generalization, simultaneous instantiation):                    *)
(*   Conc(r) = [ok, run, und, c]                                           *)
(*     ok  : the expression can be built (static rules)                    *)
(*     run : its rules are applicable at run time                          *)
(*     und : the documented substitution is undefined somewhere inside     *)
(*     c   : the conclusion                                                *)
(***************************************************************************)
EXTENDS MLMachine

R0(k) == [k |-> k]
RMp(a, b) == [k |-> "mp", a |-> a, b |-> b]
RDyn(a, d) == [k |-> "dyn", a |-> a, d |-> d]
RInst(a, d) == [k |-> "inst", a |-> a, d |-> d]
RAx(t) == [k |-> "axiom", t |-> t]          \* load_axiom(t): t must be an axiom of the enclosing module
RGen(a, x) == [k |-> "gen", a |-> a, x |-> x]

NBot == NInst(Mu(0, SV(0)), <<>>)
Prop3Adv == Imp(Imp(Imp(Phi0, NBot), NBot), Phi0)
\* result of the documented rules: [ok (static), run (applicable at run time), c (conclusion)]
\* und: the documented substitution is undefined (it would capture a variable of the plug); the checker aborts there
\* while the toolkit substitutes naively (known finding C02-python-no-capture-or-constraint-check), so only the
\* agreement of the interpreters is judged for such expressions.
Bad == [ok |-> FALSE, run |-> FALSE, und |-> FALSE, c |-> Bot]
R(ok, run, und, c) == [ok |-> ok, run |-> run, und |-> und, c |-> c]
RECURSIVE Conc(_)
Conc(r) ==
  CASE r.k = "prop1" -> R(TRUE, TRUE, FALSE, Prop1Ax)
    [] r.k = "prop2" -> R(TRUE, TRUE, FALSE, Prop2Ax)
    [] r.k = "prop3" -> R(TRUE, TRUE, FALSE, Prop3Adv)
    [] r.k = "quant" -> R(TRUE, TRUE, FALSE, QuantifierAx)
    [] r.k = "axiom" -> R(TRUE, TRUE, FALSE, r.t)
    [] r.k = "mp" -> LET a == Conc(r.a)  b == Conc(r.b) IN
                     IF ~a.ok \/ ~b.ok THEN Bad
                     ELSE LET ea == Expand(a.c) IN
                          IF ea.t = "imp" /\ ea.l = Expand(b.c) THEN R(TRUE, a.run /\ b.run, a.und \/ b.und, ea.r) ELSE Bad
    [] r.k \in {"dyn", "inst"} ->     \* ProofExp.instantiate and ProofExp.dynamic_inst mean the same
                      LET a == Conc(r.a) IN
                      IF ~a.ok THEN Bad
                      ELSE LET i == InstNoCheck(Expand(a.c), Keys(r.d), [k \in 1..Len(r.d) |-> Expand(r.d[k][2])]) IN
                           IF HasAbort(i) THEN R(TRUE, FALSE, TRUE, Bot) ELSE R(TRUE, a.run, a.und, i)
    [] r.k = "gen" -> LET a == Conc(r.a) IN
                      IF ~a.ok THEN Bad
                      ELSE LET ea == Expand(a.c) IN
                           IF ea.t # "imp" THEN Bad          \* Implies.extract fails when the expression is built
                           ELSE R(TRUE, a.run /\ EFresh(ea.r, r.x), a.und, Imp(Ex(r.x, ea.l), ea.r))
=============================================================================
