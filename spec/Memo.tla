--------------------------------- MODULE Memo ---------------------------------
(***************************************************************************)
(* Interpreter.pattern (the structural recursion that turns a pattern into *)
(* primitive interpreter calls) under a MemoizingInterpreter with memo set *)
(* S, on top of the tracker/serializer of module Generator:                *)
(*   pattern(p):  if p is (==) in the tracker memory:   load(p)            *)
(*                elif p in S:  build p; save(p)                           *)
(*                else:         build p                                    *)
(*   build: children first (left to right; for a notation node its plugs   *)
(*          in map order, then the definition; for a pending substitution  *)
(*          the plug, then the body), then the constructor call.           *)
(* PatCalls(p, mem, S) is the sequence of primitive calls; the composite   *)
(* effect on (tracker, machine) is the fold of Generator!GStep / MLMachine *)
(* over it.  Theorem checked by TLC (MC_Memo): for every p of the          *)
(* universe, every S, every initial memory, the composite preserves Rel    *)
(* and leaves exactly p on top of the machine stack - i.e. memoisation     *)
(* never changes what is built.                                            *)
(***************************************************************************)
EXTENDS Generator

InMem(mem, e) == \E k \in 1..Len(mem) : EqE(mem[k], e)
RECURSIVE PatCalls(_, _, _), Build(_, _, _), BuildPlugs(_, _, _, _)
\* state threaded through the recursion: [calls, mem]
PatCalls(p, st, S) ==
  IF InMem(st.mem, Pat(p)) THEN [calls |-> Append(st.calls, CT("load", 0, Pat(p), Bot)), mem |-> st.mem]
  ELSE LET b == Build(p, st, S) IN
       IF p \in S THEN [calls |-> Append(b.calls, CT("save", 0, Pat(p), Bot)), mem |-> Append(b.mem, Pat(p))] ELSE b
BuildPlugs(d, k, st, S) == IF k > Len(d) THEN st ELSE BuildPlugs(d, k + 1, PatCalls(d[k][2], st, S), S)
Build(p, st, S) ==
  LET add(s, c) == [calls |-> Append(s.calls, c), mem |-> s.mem] IN
  CASE p.t = "ev"  -> add(st, C1("evar", p.i))
    [] p.t = "sv"  -> add(st, C1("svar", p.i))
    [] p.t = "sym" -> add(st, C1("symbol", p.i))
    [] p.t = "mv"  -> add(st, Call("metavar", p.i, Bot, Bot, <<>>, <<p.ef, p.sf, p.pos, p.neg, p.hol>>))
    [] p.t = "imp" -> add(PatCalls(p.r, PatCalls(p.l, st, S), S), CT("implies", 0, p.l, p.r))
    [] p.t = "app" -> add(PatCalls(p.r, PatCalls(p.l, st, S), S), CT("app", 0, p.l, p.r))
    [] p.t = "ex"  -> add(PatCalls(p.p, st, S), CT("exists", p.v, p.p, Bot))
    [] p.t = "mu"  -> add(PatCalls(p.p, st, S), CT("mu", p.v, p.p, Bot))
    [] p.t = "es"  -> add(PatCalls(p.p, PatCalls(p.g, st, S), S), CT("esubst", p.v, p.p, p.g))
    [] p.t = "ss"  -> add(PatCalls(p.p, PatCalls(p.g, st, S), S), CT("ssubst", p.v, p.p, p.g))
    [] p.t = "inst" -> add(PatCalls(p.p, BuildPlugs(p.d, 1, st, S), S), Call("instantiate_pattern", 0, p.p, Bot, p.d, <<>>))

RECURSIVE Subterms(_)
Subterms(p) == {p} \cup
  CASE p.t \in {"imp", "app"} -> Subterms(p.l) \cup Subterms(p.r)
    [] p.t \in {"ex", "mu"} -> Subterms(p.p)
    [] p.t \in {"es", "ss"} -> Subterms(p.p) \cup Subterms(p.g)
    [] p.t = "inst" -> Subterms(p.p) \cup UNION {Subterms(p.d[k][2]) : k \in 1..Len(p.d)}
    [] OTHER -> {}
=============================================================================
