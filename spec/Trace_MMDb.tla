------------------------------ MODULE Trace_MMDb ------------------------------
(***************************************************************************)
(* C17 (family "db"): printing, re-parsing and slicing of Metamath         *)
(* databases; C16 (family "translate"): translation of a verified target   *)
(* into a checkable matching-logic proof of the same statement.            *)
(*                                                                         *)
(* db clauses                                                              *)
(*   print / roundtrip : Encoder output = MMVerify!PrintStmts(ast);        *)
(*                       parse(print(db)) = db                             *)
(*   token-kind : a token declared in a $c statement was parsed as a       *)
(*                variable node, or a $v token as a constant (the parse    *)
(*                must be a function of the text, not of earlier parses)   *)
(*   fresh-parse : the same text parsed by a fresh process gives another   *)
(*                abstract syntax tree                                     *)
(*   slice-print, slice-roundtrip, slice-undeclared (a token used without  *)
(*   declaration / active $f), slice-float-order, slice-statement (the     *)
(*   lemma in the slice is the original statement with its original        *)
(*   proof), slice-proof (the original compressed proof verifies against   *)
(*   the slice; only judged when it verifies against the whole database)   *)
(* translate clauses                                                       *)
(*   mm-invalid (machinery: generated proof does not verify), translation- *)
(*   failed, not-accepted (machine / Rust reject the emitted files),       *)
(*   image (published axioms and claim are not the structural images of    *)
(*   the database's axioms, rules and target, modulo injective renaming of *)
(*   symbols and metavariables)                                            *)
(***************************************************************************)
EXTENDS MMVerify, MLMachine, Json, IOUtils, TLCExt, SequencesExt
CONSTANTS BlockSize
VARIABLE blk
Cases == ndJsonDeserialize(IOEnv.CASES)

RECURSIVE IsSubseq(_, _)
IsSubseq(a, b) == IF a = <<>> THEN TRUE ELSE IF b = <<>> THEN FALSE
                  ELSE IF Head(a) = Head(b) THEN IsSubseq(Tail(a), Tail(b)) ELSE IsSubseq(a, Tail(b))
FindP(ss, label) == LET ps == AllP(ss) IN
                    IF \E k \in 1..Len(ps) : ps[k].label = label THEN ps[CHOOSE k \in 1..Len(ps) : ps[k].label = label]
                    ELSE [k |-> "none", label |-> label]

\* all constants / variables declared anywhere in the database, and the kinds of the term nodes
RECURSIVE Declared(_, _), TermNodes(_), TermsNodes(_), StmtNodes(_)
Declared(ss, k) == IF ss = <<>> THEN {} ELSE
  (IF Head(ss).k = k THEN SetOfSeq(IF k = "c" THEN Head(ss).syms ELSE Head(ss).vars)
   ELSE IF Head(ss).k = "b" THEN Declared(Head(ss).stmts, k) ELSE {}) \cup Declared(Tail(ss), k)
TermNodes(t) == IF "m" \in DOMAIN t THEN {<<"m", t.m>>} ELSE {<<"s", t.s>>} \cup TermsNodes(t.a)
TermsNodes(ts) == IF ts = <<>> THEN {} ELSE TermNodes(Head(ts)) \cup TermsNodes(Tail(ts))
StmtNodes(ss) == IF ss = <<>> THEN {} ELSE
  (CASE Head(ss).k \in {"e", "a", "p"} -> TermsNodes(Head(ss).terms)
     [] Head(ss).k = "f" -> {<<"m", Head(ss).var>>, <<"s", Head(ss).tc>>}
     [] Head(ss).k = "b" -> StmtNodes(Head(ss).stmts)
     [] OTHER -> {}) \cup StmtNodes(Tail(ss))
KindsOK(db) == LET cs == Declared(db, "c")  vs == Declared(db, "v") IN
               \A n \in StmtNodes(db) : IF n[1] = "m" THEN n[2] \notin cs ELSE n[2] \notin vs

CheckSlice(orig, sl) ==
  LET p0 == FindP(orig, sl.label)  p1 == FindP(sl.ast, sl.label) IN
  IF sl.printed # PrintStmts(sl.ast) THEN "slice-print"
  ELSE IF sl.ast2 # sl.ast THEN "slice-roundtrip"
  ELSE IF Analyse(sl.ast).errs # {} THEN "slice-undeclared"
  ELSE IF ~IsSubseq(FloatOrder(sl.ast), FloatOrder(orig)) THEN "slice-float-order"
  ELSE IF p0 # p1 THEN "slice-statement"
  ELSE IF VerifyP(orig, p0).ok /\ PrintT(<<"INFO", "slice-proof-judged", sl.label>>) /\ ~VerifyP(sl.ast, p1).ok THEN "slice-proof"
  ELSE ""

(* ---- structural image of Metamath terms as matching-logic patterns ---- *)
\* declared notations:  x-is-sugar $a #Notation ( \x p1 .. pk ) rhs $.   (the image of an application of \x is the image of rhs)
RECURSIVE SugarOf(_)
SugarOf(ss) ==
  IF ss = <<>> THEN <<>> ELSE
  LET st == Head(ss) IN
  (IF st.k = "a" /\ Len(st.terms) = 3 /\ "s" \in DOMAIN st.terms[1] /\ st.terms[1].s = "#Notation" /\ "s" \in DOMAIN st.terms[2]
   THEN << [s |-> st.terms[2].s, params |-> [k \in 1..Len(st.terms[2].a) |-> st.terms[2].a[k].m], rhs |-> st.terms[3]] >>
   ELSE IF st.k = "b" THEN SugarOf(st.stmts) ELSE <<>>) \o SugarOf(Tail(ss))
RECURSIVE SubstTerm(_, _, _)
SubstTerm(t, params, args) ==
  IF "m" \in DOMAIN t
  THEN (IF \E k \in 1..Len(params) : params[k] = t.m THEN args[CHOOSE k \in 1..Len(params) : params[k] = t.m] ELSE t)
  ELSE [s |-> t.s, a |-> [k \in 1..Len(t.a) |-> SubstTerm(t.a[k], params, args)]]
RECURSIVE ImgTermS(_, _), AppFoldS(_, _, _)
AppFoldS(f, args, sg) == IF args = <<>> THEN f ELSE AppFoldS([t |-> "app", l |-> f, r |-> ImgTermS(Head(args), sg)], Tail(args), sg)
ImgTermS(t, sg) ==
  IF "m" \in DOMAIN t THEN [t |-> "mv", i |-> t.m]
  ELSE IF t.s = "\\imp" /\ Len(t.a) = 2 THEN [t |-> "imp", l |-> ImgTermS(t.a[1], sg), r |-> ImgTermS(t.a[2], sg)]
  ELSE IF \E k \in 1..Len(sg) : sg[k].s = t.s /\ Len(sg[k].params) = Len(t.a)
       THEN LET d == sg[CHOOSE k \in 1..Len(sg) : sg[k].s = t.s /\ Len(sg[k].params) = Len(t.a)] IN
            ImgTermS(SubstTerm(d.rhs, d.params, t.a), sg)
  ELSE AppFoldS([t |-> "sym", i |-> t.s], t.a, sg)
\* sequences of metavariable / symbol ids in traversal order
RECURSIVE MVOrder(_), SymOrder(_)
MVOrder(p) == CASE p.t = "mv" -> <<p.i>> [] p.t \in {"imp", "app"} -> MVOrder(p.l) \o MVOrder(p.r) [] OTHER -> <<>>
SymOrder(p) == CASE p.t = "sym" -> <<p.i>> [] p.t \in {"imp", "app"} -> SymOrder(p.l) \o SymOrder(p.r) [] OTHER -> <<>>
RECURSIVE Dedup(_, _)
Dedup(s, acc) == IF s = <<>> THEN acc
                 ELSE Dedup(Tail(s), IF \E k \in 1..Len(acc) : acc[k] = Head(s) THEN acc ELSE Append(acc, Head(s)))
Idx(order, x) == CHOOSE k \in 1..Len(order) : order[k] = x
RECURSIVE Renum(_, _, _)
Renum(p, mvo, syo) ==
  CASE p.t = "mv"  -> [t |-> "mv", i |-> Idx(mvo, p.i)]
    [] p.t = "sym" -> [t |-> "sym", i |-> Idx(syo, p.i)]
    [] p.t \in {"imp", "app"} -> [t |-> p.t, l |-> Renum(p.l, mvo, syo), r |-> Renum(p.r, mvo, syo)]
    [] OTHER -> [t |-> "other", i |-> 0]
\* canonical form of a sequence of patterns: symbols numbered globally, metavariables per pattern
RECURSIVE AllSyms(_)
AllSyms(ps) == IF ps = <<>> THEN <<>> ELSE SymOrder(Head(ps)) \o AllSyms(Tail(ps))
CanonSeq(ps) == LET syo == Dedup(AllSyms(ps), <<>>) IN
                [k \in 1..Len(ps) |-> Renum(ps[k], Dedup(MVOrder(ps[k]), <<>>), syo)]
\* strip constraint lists etc. from machine patterns (only mv / sym / imp / app occur in this fragment)
RECURSIVE Plain(_)
Plain(p) == CASE p.t = "mv" -> [t |-> "mv", i |-> p.i]
              [] p.t = "sym" -> [t |-> "sym", i |-> p.i]
              [] p.t \in {"imp", "app"} -> [t |-> p.t, l |-> Plain(p.l), r |-> Plain(p.r)]
              [] OTHER -> [t |-> "other", i |-> 0]

BuiltinRules == {"proof-rule-prop-1", "proof-rule-prop-2", "proof-rule-mp"}
IsTurnstile(st) == Len(st.terms) = 2 /\ "s" \in DOMAIN st.terms[1] /\ st.terms[1].s = "|-"
RECURSIVE ImpChain(_, _)
ImpChain(hs, c) == IF hs = <<>> THEN c ELSE [t |-> "imp", l |-> Head(hs), r |-> ImpChain(Tail(hs), c)]
\* images of the |- axioms and rules of a database, in database order (blocks: $e hypotheses become antecedents)
RECURSIVE AxImages(_, _, _)
AxImages(ss, ehyps, sg) ==
  IF ss = <<>> THEN <<>> ELSE
  LET st == Head(ss) IN
  CASE st.k = "a" /\ IsTurnstile(st) /\ st.label \notin BuiltinRules ->
         <<ImpChain(ehyps, ImgTermS(st.terms[2], sg))>> \o AxImages(Tail(ss), ehyps, sg)
    [] st.k = "e" /\ IsTurnstile(st) -> AxImages(Tail(ss), Append(ehyps, ImgTermS(st.terms[2], sg)), sg)
    [] st.k = "b" -> AxImages(st.stmts, ehyps, sg) \o AxImages(Tail(ss), ehyps, sg)
    [] OTHER -> AxImages(Tail(ss), ehyps, sg)

CheckTranslate(c) ==
  LET pst == FindP(c.ast, c.target) IN
  IF pst.k = "none" \/ ~VerifyP(c.ast, pst).ok THEN "mm-invalid"
  ELSE IF c.out # "ok" THEN
       \* the translator saves every Z-marked step in the checker's memory next to the published axioms; Load addresses
       \* memory with one byte, so more marks than addressable slots cannot be expressed (known finding, named by reason)
       (IF Cardinality({k \in 1..Len(pst.letters) : pst.letters[k] = 26}) + Len(AxImages(c.ast, <<>>, SugarOf(c.ast))) > 255
        THEN "translation-failed/more-saved-steps-than-addressable" ELSE "translation-failed")
  ELSE LET r == Verify(c.files[1], c.files[2], c.files[3]) IN
       IF ~r.ok \/ c.rust # "ok" THEN "not-accepted"
       ELSE LET got == [k \in 1..Len(r.st.journal.axioms) |-> Plain(r.st.journal.axioms[k])] \o
                       [k \in 1..Len(r.st.journal.claims) |-> Plain(r.st.journal.claims[k])]
                sug == SugarOf(c.ast)
                want == AxImages(c.ast, <<>>, sug) \o <<ImgTermS(pst.terms[2], sug)>>
            IN IF Len(got) # Len(want) THEN "image"
               ELSE IF CanonSeq(got) # CanonSeq(want) THEN "image"
               ELSE IF r.st.journal.proved # r.st.journal.claims THEN "image"
               ELSE ""

CheckCase(i) ==
  LET c == Cases[i] IN
  IF c.fam = "db" THEN
       IF c.out # "ok" THEN "raised"
       ELSE IF c.printed # PrintStmts(c.ast) THEN "print"
       ELSE IF ~KindsOK(c.ast) THEN "token-kind"
       ELSE IF c.hasfresh /\ c.fresh # c.ast THEN "fresh-parse"
       ELSE IF c.ast2 # c.ast THEN "roundtrip"
       ELSE IF Len(c.slices) # Len(c.lemmas) THEN "slice-missing"
       ELSE LET bad == {k \in 1..Len(c.slices) : CheckSlice(c.ast, c.slices[k]) # ""} IN
            IF bad = {} THEN "" ELSE CheckSlice(c.ast, c.slices[CHOOSE k \in bad : \A j \in bad : k <= j])
  ELSE CheckTranslate(c)
INSTANCE TraceBlocks WITH NCases <- Len(Cases), Check <- CheckCase
=============================================================================
