---------------------------- MODULE MLSemantics ----------------------------
(***************************************************************************)
(* Finite-model semantics of matching logic and validity of (schematic)    *)
(* patterns.  A model has carrier 1..n, interprets every symbol as a       *)
(* subset of the carrier and application as a function D x D -> SUBSET D   *)
(* (extended pointwise).  mu is the least fixpoint, computed by Kleene     *)
(* iteration on the finite powerset.                                       *)
(*                                                                         *)
(* Valid(p, Gam): p holds (evaluates to the whole carrier under every      *)
(* valuation) in every model of the concrete theory Gam with carrier       *)
(* 1..MaxCarrier.  Quantifiers range only over what p and Gam mention      *)
(* (free variables, symbols, the application table iff some pattern has an *)
(* application), which is equivalent and keeps the enumeration small.      *)
(*                                                                         *)
(* ValidSchema(p, Gam): every admissible concrete instance of p (metavars  *)
(* replaced by members of InstU that satisfy each occurrence's constraint  *)
(* lists, pending substitutions performed with the textbook capture-       *)
(* avoiding substitution and instances on which it is undefined skipped)   *)
(* is Valid.                                                               *)
(***************************************************************************)
EXTENDS MLCore

CONSTANTS MaxCarrier,      \* carriers 1..MaxCarrier without application
          MaxCarrierApp    \* carriers 1..MaxCarrierApp for patterns with application

RECURSIVE AllE(_), AllS(_), Syms(_), HasApp(_)
AllE(p) == CASE p.t = "ev" -> {p.i}
             [] p.t \in {"imp", "app"} -> AllE(p.l) \cup AllE(p.r)
             [] p.t = "ex" -> AllE(p.p) \cup {p.v}
             [] p.t = "mu" -> AllE(p.p)
             [] OTHER -> {}
AllS(p) == CASE p.t = "sv" -> {p.i}
             [] p.t \in {"imp", "app"} -> AllS(p.l) \cup AllS(p.r)
             [] p.t = "mu" -> AllS(p.p) \cup {p.v}
             [] p.t = "ex" -> AllS(p.p)
             [] OTHER -> {}
Syms(p) == CASE p.t = "sym" -> {p.i}
             [] p.t \in {"imp", "app"} -> Syms(p.l) \cup Syms(p.r)
             [] p.t \in {"ex", "mu"} -> Syms(p.p)
             [] OTHER -> {}
HasApp(p) == CASE p.t = "app" -> TRUE
               [] p.t = "imp" -> HasApp(p.l) \/ HasApp(p.r)
               [] p.t \in {"ex", "mu"} -> HasApp(p.p)
               [] OTHER -> FALSE

\* M = [dom, sym, app]; re, rs = valuations (functions on a superset of the ids used)
RECURSIVE Eval(_, _, _, _), Lfp(_, _, _, _, _, _)
AppExt(M, A, B) == UNION {M.app[<<a, b>>] : a \in A, b \in B}
Eval(p, M, re, rs) ==
  CASE p.t = "ev"  -> {re[p.i]}
    [] p.t = "sv"  -> rs[p.i]
    [] p.t = "sym" -> M.sym[p.i]
    [] p.t = "imp" -> (M.dom \ Eval(p.l, M, re, rs)) \cup Eval(p.r, M, re, rs)
    [] p.t = "app" -> AppExt(M, Eval(p.l, M, re, rs), Eval(p.r, M, re, rs))
    [] p.t = "ex"  -> UNION {Eval(p.p, M, [re EXCEPT ![p.v] = a], rs) : a \in M.dom}
    [] p.t = "mu"  -> Lfp(p, M, re, rs, {}, Cardinality(M.dom) + 1)
\* bounded Kleene iteration (a monotone body converges within |dom| steps)
Lfp(p, M, re, rs, X, fuel) ==
  LET Y == Eval(p.p, M, re, [rs EXCEPT ![p.v] = X])
  IN IF Y = X \/ fuel = 0 THEN Y ELSE Lfp(p, M, re, rs, Y, fuel - 1)

SetUnion(S, f(_)) == UNION {f(x) : x \in S}

\* p: concrete pattern, Gam: set of concrete patterns
HoldsIn(q, M, n, es, ss) ==
  LET fe == FVe(q)  fs == FVs(q)  D == 1..n IN
  \A re \in [fe -> D] : \A rs \in [fs -> SUBSET D] :
     Eval(q, M, [i \in es |-> IF i \in fe THEN re[i] ELSE 1],
               [i \in ss |-> IF i \in fs THEN rs[i] ELSE {}]) = D

ValidN(p, Gam, n) ==
  LET all  == Gam \cup {p}
      sy   == UNION {Syms(q) : q \in all}
      es   == UNION {AllE(q) : q \in all}
      ss   == UNION {AllS(q) : q \in all}
      D    == 1..n
      apps == IF \E q \in all : HasApp(q) THEN [D \X D -> SUBSET D]
              ELSE {[x \in D \X D |-> {}]}
  IN \A sm \in [sy -> SUBSET D] : \A am \in apps :
       LET M == [dom |-> D, sym |-> sm, app |-> am] IN
       (\A a \in Gam : HoldsIn(a, M, n, es, ss)) => HoldsIn(p, M, n, es, ss)

Valid(p, Gam) ==
  LET hasapp == \E q \in Gam \cup {p} : HasApp(q)
      top    == IF hasapp THEN MaxCarrierApp ELSE MaxCarrier
  IN \A n \in 1..top : ValidN(p, Gam, n)

-----------------------------------------------------------------------------
(* Concrete instances of a schematic pattern                               *)
RECURSIVE CInst(_, _)
CInst(p, th) ==
  CASE p.t = "mv"  -> th[p.i]
    [] p.t = "imp" -> Imp(CInst(p.l, th), CInst(p.r, th))
    [] p.t = "app" -> App(CInst(p.l, th), CInst(p.r, th))
    [] p.t = "ex"  -> Ex(p.v, CInst(p.p, th))
    [] p.t = "mu"  -> Mu(p.v, CInst(p.p, th))
    [] p.t = "es"  -> LET b == CInst(p.p, th)  g == CInst(p.g, th) IN
                      IF HasAbort(b) \/ HasAbort(g) THEN Abort ELSE TbESubst(b, p.v, g)
    [] p.t = "ss"  -> LET b == CInst(p.p, th)  g == CInst(p.g, th) IN
                      IF HasAbort(b) \/ HasAbort(g) THEN Abort ELSE TbSSubst(b, p.v, g)
    [] OTHER -> p

\* g (concrete) satisfies the constraint lists of the metavariable occurrence m
AdmOne(m, g) ==
  /\ \A k \in 1..Len(m.ef)  : m.ef[k]  \notin FVe(g)
  /\ \A k \in 1..Len(m.sf)  : m.sf[k]  \notin FVs(g)
  /\ \A k \in 1..Len(m.pos) : CPos(g, m.pos[k])
  /\ \A k \in 1..Len(m.neg) : CNeg(g, m.neg[k])

\* every mu node of a concrete pattern binds a variable that occurs only positively
RECURSIVE MuOK(_)
MuOK(p) == CASE p.t \in {"imp", "app"} -> MuOK(p.l) /\ MuOK(p.r)
             [] p.t = "ex" -> MuOK(p.p)
             [] p.t = "mu" -> CPos(p.p, p.v) /\ MuOK(p.p)
             [] OTHER -> TRUE

Thetas(p, U)  == [MVIds(p) -> U]
Admissible(p, th) == \A m \in MVs(p) : AdmOne(m, th[m.i])

ValidSchemaU(p, Gam, U) ==
  \A th \in Thetas(p, U) :
     Admissible(p, th) =>
        LET c == CInst(p, th) IN
        IF HasAbort(c) THEN TRUE ELSE (MuOK(c) /\ Valid(c, Gam))

\* a counterexample instance, for diagnostics
BadTheta(p, Gam, U) ==
  CHOOSE th \in Thetas(p, U) :
     Admissible(p, th) /\ LET c == CInst(p, th) IN ~HasAbort(c) /\ ~(MuOK(c) /\ Valid(c, Gam))

(* Default instance universe: witnesses of every freshness / polarity shape *)
InstU == {EV(0), EV(1), SV(0), SV(1), Sym(0), Imp(SV(0), Bot), Ex(0, EV(0)),
          Mu(0, SV(0)), Imp(EV(0), SV(1)), Ex(1, Imp(EV(0), EV(1)))}
InstUSmall == {EV(0), EV(1), SV(0), SV(1), Imp(SV(0), Bot), Ex(1, Imp(EV(0), EV(1)))}
ValidSchema(p, Gam) == ValidSchemaU(p, Gam, InstU)
=============================================================================
