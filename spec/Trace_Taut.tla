------------------------------ MODULE Trace_Taut ------------------------------
(***************************************************************************)
(* C09.  The tautology prover as a decision procedure.                     *)
(* Propositional semantics: a propositional pattern (after notation        *)
(* expansion) is built from metavariables, bottom (mu X0 . X0) and         *)
(* implication; PEval gives its truth value under an assignment of the     *)
(* metavariables; Taut = true under all assignments.                       *)
(* Families:                                                               *)
(*  prove   : verdict must be "true" iff Taut(p), "false" iff Taut(~p),    *)
(*            "none" otherwise; the proof's conclusion is p resp. ~p       *)
(*  stage   : each normal-form stage returns an equivalent formula in the  *)
(*            advertised shape with proofs of both implications            *)
(*  resolve : start_resolution_algorithm on a clause list: a proof of the  *)
(*            conjunction when every clause is trivially true, a           *)
(*            refutation iff the clause set is unsatisfiable, None only    *)
(*            when it is satisfiable                                       *)
(***************************************************************************)
EXTENDS MLCore, Json, IOUtils, TLCExt, SequencesExt, Integers
CONSTANTS BlockSize
VARIABLE blk
Cases == ndJsonDeserialize(IOEnv.CASES)

RECURSIVE IsProp(_), PEval(_, _)
IsProp(p) == CASE p.t = "mv" -> TRUE
               [] p.t = "imp" -> IsProp(p.l) /\ IsProp(p.r)
               [] p.t = "mu" -> p = Bot
               [] OTHER -> FALSE
PEval(p, val) == CASE p.t = "mv" -> val[p.i]
                   [] p.t = "imp" -> PEval(p.l, val) => PEval(p.r, val)
                   [] OTHER -> FALSE
Taut(p) == \A val \in [MVIds(p) -> BOOLEAN] : PEval(p, val)
Equiv(p, q) == \A val \in [MVIds(p) \cup MVIds(q) -> BOOLEAN] : PEval(p, val) = PEval(q, val)

\* shapes of the conjunctive-form trees [k, neg, c, id]
RECURSIVE NoAnd(_), NegOnlyAtVars(_), IsCNF(_), NoAndBelow(_)
NoAnd(t) == t.k # "and" /\ \A j \in 1..Len(t.c) : NoAnd(t.c[j])
NegOnlyAtVars(t) == (t.neg => t.k = "var") /\ t.k # "bot" /\ \A j \in 1..Len(t.c) : NegOnlyAtVars(t.c[j])
NoAndBelow(t) == t.k # "and" /\ \A j \in 1..Len(t.c) : NoAndBelow(t.c[j])
IsCNF(t) == IF t.k = "and" THEN \A j \in 1..Len(t.c) : IsCNF(t.c[j]) ELSE NoAndBelow(t)
ShapeOK(st) ==
  CASE st.stage = "conj"   -> NoAnd(st.cf)
    [] st.stage = "propag" -> NegOnlyAtVars(st.cf)
    [] st.stage = "cnf"    -> NegOnlyAtVars(st.cf) /\ IsCNF(st.cf)
    [] st.stage = "clauses" -> \A j \in 1..Len(st.cf.cl) : Len(st.cf.cl[j]) > 0 /\ \A m \in 1..Len(st.cf.cl[j]) : st.cf.cl[j][m] # 0

\* clause sets: literal n > 0 is variable n, -n its negation
SatClauses(cls) ==
  LET vs == UNION {{IF cls[j][m] < 0 THEN -cls[j][m] ELSE cls[j][m] : m \in 1..Len(cls[j])} : j \in 1..Len(cls)} IN
  \E val \in [vs -> BOOLEAN] : \A j \in 1..Len(cls) : \E m \in 1..Len(cls[j]) :
      IF cls[j][m] > 0 THEN val[cls[j][m]] ELSE ~val[-cls[j][m]]
Trivial(cl) == \E a \in 1..Len(cl) : \E b \in 1..Len(cl) : cl[a] + cl[b] = 0

CheckCase(i) ==
  LET c == Cases[i] IN
  CASE c.fam = "prove" ->
        LET p == Expand(c.pat) IN
        IF ~IsProp(p) THEN ""
        ELSE IF c.out # "ok" THEN "raised"
        ELSE LET exp == IF Taut(p) THEN "true" ELSE IF Taut(Imp(p, Bot)) THEN "false" ELSE "none" IN
             IF c.verdict # exp THEN "verdict"
             ELSE IF c.verdict = "true" /\ Expand(c.conc) # p THEN "conclusion"
             ELSE IF c.verdict = "false" /\ Expand(c.conc) # Imp(p, Bot) THEN "conclusion"
             ELSE ""
    [] c.fam = "stage" ->
        LET a == Expand(c.st.in)  b == Expand(c.st.out) IN
        IF ~Equiv(a, b) THEN "stage-equivalence"
        ELSE IF ~ShapeOK(c.st) THEN "stage-shape"
        ELSE IF c.st.cf.k = "bot"
             THEN (IF Expand(c.st.pf1) \notin {a, Imp(a, Bot)} THEN "stage-proofs" ELSE "")
        ELSE IF Expand(c.st.pf1) # Imp(a, b) \/ Expand(c.st.pf2) # Imp(b, a) THEN "stage-proofs"
        ELSE ""
    [] c.fam = "resolve" ->
        IF c.out # "ok" THEN "raised"
        ELSE IF c.clauses = <<>> THEN (IF c.res = "true" THEN "" ELSE "resolve-verdict")
        ELSE IF \A j \in 1..Len(c.clauses) : Trivial(c.clauses[j]) THEN (IF c.res = "true" THEN "" ELSE "resolve-verdict")
        ELSE IF SatClauses(c.clauses) THEN (IF c.res = "none" THEN "" ELSE "resolve-verdict")
        ELSE IF c.res = "false" THEN "" ELSE "resolve-incomplete"
INSTANCE TraceBlocks WITH NCases <- Len(Cases), Check <- CheckCase
=============================================================================
