----------------------------- MODULE Determinism -----------------------------
(***************************************************************************)
(* C18.  Output is a function of the input.                                *)
(*                                                                         *)
(* Processes run with a hash seed and serialise inputs one after another   *)
(* (an input = a proof module or a Metamath database, an optimise setting  *)
(* and an output format).  `out` remembers the first observed output       *)
(* (digest of the three files) of every input; SerializeStep(p, m, o) is only  *)
(* enabled when o agrees with it.  A recorded history of the real toolkit  *)
(* is a behaviour of this specification iff the toolkit is deterministic   *)
(* across processes, seeds and in-process histories.                       *)
(*                                                                         *)
(* Mode "sched": TLC enumerates the schedules (seed of each process and    *)
(* the sequence of inputs it serialises) that the harness then realises    *)
(* with real worker processes.  Mode "trace": validation of the recorded   *)
(* events, in the order they were recorded.                                *)
(***************************************************************************)
EXTENDS Naturals, Sequences, TLC, Json, IOUtils, TLCExt
CONSTANTS Mode, NInputs, MaxHist, NSeeds
VARIABLES hist,     \* sched mode: <<seed index, sequence of input ids>> of the process being built
          out, l    \* trace mode: first observed output per input, position in the trace
vars == <<hist, out, l>>
Events == IF Mode = "trace" THEN ndJsonDeserialize(IOEnv.CASES) ELSE <<>>
None == "none"

\* ---- the specification proper
SerializeStep(m, o) == /\ out[m] \in {None, o}
                   /\ out' = [out EXCEPT ![m] = o]
Functional == \A m \in DOMAIN out : TRUE     \* functionality is enforced by the enabling condition of Serialize

\* ---- schedules
SchedInit == hist = <<0, <<>>>> /\ out = <<>> /\ l = 0
SchedNext == \/ /\ hist[1] = 0
                /\ \E s \in 1..NSeeds : hist' = <<s, <<>>>>
                /\ UNCHANGED <<out, l>>
             \/ /\ hist[1] > 0 /\ Len(hist[2]) < MaxHist
                /\ \E m \in 1..NInputs : hist' = <<hist[1], Append(hist[2], m)>>
                /\ PrintT("SCHED " \o ToJson([seed |-> hist[1], inputs |-> hist'[2]]))
                /\ UNCHANGED <<out, l>>

\* ---- trace validation
TraceInit == hist = <<0, <<>>>> /\ l = 1 /\ out = [m \in 1..NInputs |-> None]
TraceNext == /\ l <= Len(Events)
             /\ LET e == Events[l] IN
                IF out[e.input] \in {None, e.sha}
                THEN SerializeStep(e.input, e.sha)
                ELSE /\ PrintT(<<"FAIL", l, "nondeterministic">>)
                     /\ UNCHANGED out                   \* keep the first observation, go on
             /\ l' = l + 1 /\ UNCHANGED hist
             /\ (l' = Len(Events) + 1 => PrintT(<<"DONE", 1, Len(Events)>>))
Init == IF Mode = "trace" THEN TraceInit ELSE SchedInit
Next == IF Mode = "trace" THEN TraceNext ELSE SchedNext
Spec == Init /\ [][Next]_vars
=============================================================================
