------------------------------ MODULE MC_ProofExp ------------------------------
(***************************************************************************)
(* TLC enumerates all ProofExp expressions up to depth 3 over a small      *)
(* alphabet of plugs (chosen so that modus ponens becomes applicable),     *)
(* computes the conclusion (or that the rule is inapplicable, statically   *)
(* or at run time) and prints them (PEXP json) for the harness, which      *)
(* builds them with the real ProofExp constructors and runs them under     *)
(* every interpreter stack; Trace_ProofExp judges what comes back.         *)
(***************************************************************************)
EXTENDS ProofExpRun, Json, TLCExt, SequencesExt
CONSTANTS BlockSize
VARIABLE blk

Plugs == {EV(0), EV(1), CMV(0), CMV(1), Imp(CMV(0), CMV(0)), NInst(Imp(CMV(0), NBot), << <<0, EV(1)>> >>), Ex(1, EV(0))}
Deltas == {<<>>} \cup {<< <<k, g>> >> : k \in {0, 1, 5}, g \in Plugs}
          \cup {<< <<0, g>>, <<1, h>> >> : g \in {CMV(1), EV(0), Imp(CMV(0), CMV(0))}, h \in {CMV(0), EV(1)}}
          \cup {<< <<1, g>>, <<0, h>> >> : g \in {CMV(0), EV(1)}, h \in {CMV(1), Imp(CMV(1), Imp(CMV(0), CMV(1)))}}
L0 == {R0("prop1"), R0("prop2"), R0("prop3"), R0("quant")}
InstDeltas == {<< <<0, EV(0)>> >>, << <<1, CMV(0)>> >>, << <<0, CMV(1)>>, <<1, Imp(CMV(0), CMV(0))>> >>, << <<1, EV(1)>>, <<0, Ex(1, EV(0))>> >>}
L1a == L0 \cup {RDyn(a, d) : a \in L0, d \in Deltas} \cup {RGen(a, x) : a \in L0, x \in {0, 1}}
          \cup {RInst(a, d) : a \in L0, d \in InstDeltas}
\* plugs that make modus ponens applicable: phi0 := the conclusion of an already enumerated expression
D1 == {<< <<0, Expand(Conc(b).c)>> >> : b \in {r \in L1a : Conc(r).run}}
\* an instantiation of an instantiation, both binding the same metavariables (the inner plugs mention what the outer one binds)
NestDeltas == {<< <<0, EV(0)>>, <<1, EV(1)>> >>, << <<1, CMV(0)>>, <<0, CMV(1)>> >>, << <<0, Imp(CMV(1), CMV(0))>> >>, << <<1, EV(0)>> >>}
L1n == {RDyn(a, d) : a \in {r \in L1a : r.k \in {"dyn", "inst"} /\ r.a \in {R0("prop1"), R0("prop2")} /\ Len(r.d) >= 1}, d \in NestDeltas}
        \cup {RInst(RDyn(R0("prop1"), << <<0, CMV(1)>>, <<1, CMV(0)>> >>), d) : d \in NestDeltas}
L1 == L1a \cup L1n \cup {RDyn(a, d) : a \in {R0("prop1"), R0("prop2")}, d \in D1}
\* constant-level definitions are evaluated once by TLC: the table saves recomputing sub-conclusions
ConcTab == [r \in L1 |-> LET c == Conc(r) IN [c |-> c, e |-> Expand(c.c)]]
L1imp == {r \in L1 : ConcTab[r].e.t = "imp"}
MpFits(a, b) == ConcTab[a].c.ok /\ ConcTab[b].c.ok /\ ConcTab[a].e.t = "imp" /\ ConcTab[a].e.l = ConcTab[b].e
L2ok == {RMp(a, b) : <<a, b>> \in {ab \in L1imp \X L1a : MpFits(ab[1], ab[2])}}
\* a sample of the statically inapplicable ones
L2bad == {RMp(a, b) : <<a, b>> \in {ab \in L0 \X L1a : ~MpFits(ab[1], ab[2])}}
L2all == L2ok \cup L2bad
SmallDeltas == {<<>>, << <<0, EV(1)>> >>, << <<1, CMV(0)>> >>, << <<0, CMV(1)>>, <<1, CMV(0)>> >>, << <<0, Ex(1, EV(0))>> >>}
L3 == {RDyn(a, d) : a \in L2ok, d \in SmallDeltas} \cup {RInst(a, d) : a \in L2ok, d \in InstDeltas} \cup {RGen(a, x) : a \in L2ok, x \in {0, 1}}
        \cup {r \in {RMp(a, b) : a \in L2ok, b \in L0 \cup L2ok} : Conc(r).ok}
ExprCases == SetToSeq(L1 \cup L2all \cup L3)

\* ---- whole modules: axioms, claims (= the conclusions), proofs ----
NNegS(x) == NInst(Imp(CMV(0), NBot), << <<0, x>> >>)
AxiomSets == {<<>>, <<Imp(Sym(0), Sym(1))>>, <<Imp(Sym(1), Sym(0)), Sym(1)>>, <<Imp(CMV(0), CMV(0)), NNegS(Sym(2)), Imp(Sym(2), Sym(0))>>}
PoolE == L0 \cup {RDyn(R0("prop1"), << <<0, EV(0)>> >>), RInst(R0("prop2"), << <<1, CMV(0)>> >>), RGen(R0("quant"), 0),
                  RDyn(R0("prop3"), << <<0, NNegS(EV(1))>> >>),
                  RMp(RDyn(R0("prop1"), << <<0, Prop1Ax>> >>), R0("prop1"))}
PoolA(as) == {RAx(as[k]) : k \in 1..Len(as)}
             \cup {RMp(RAx(as[i]), RAx(as[j])) : <<i, j>> \in {ij \in (1..Len(as)) \X (1..Len(as)) :
                       Expand(as[ij[1]]).t = "imp" /\ Expand(as[ij[1]]).l = Expand(as[ij[2]])}}
             \cup {RDyn(RAx(as[k]), << <<0, Sym(1)>> >>) : k \in 1..Len(as)}
Pool(as) == PoolE \cup PoolA(as)
Mod(is, as, ps) == [imports |-> is, axioms |-> as, proofs |-> ps]
MA == Mod(<<>>, <<Imp(Sym(0), Sym(1))>>, <<>>)
MB == Mod(<<MA>>, <<Sym(3), Imp(Sym(0), Sym(1))>>, <<R0("prop1")>>)      \* its claim is not part of the importer's claims
ImportSets == {<<MA>>, <<MA, MA>>, <<MB>>, <<MA, MB>>}
ModulesI == UNION {{Mod(is, as, ps) : is \in ImportSets, ps \in {<<>>} \cup {<<a>> : a \in PoolA(as) \cup {R0("prop1")}}} : as \in AxiomSets}
Modules == ModulesI \cup UNION {{Mod(<<>>, as, ps) : ps \in {<<>>} \cup {<<a>> : a \in Pool(as)} \cup {<<a, b>> : a \in Pool(as), b \in Pool(as)}} : as \in AxiomSets}
ModCases == SetToSeq(Modules)
NE == Len(ExprCases)
SpecCases == ExprCases \o ModCases
CheckExpr(i) ==
  LET r == ExprCases[i]  c == Conc(r)  cc == CompileClause(r) IN
  \* every statically valid expression and a sample of the statically invalid modus ponens
  IF cc # "" THEN cc
  ELSE IF c.ok \/ i % 2 = 0
       THEN (IF PrintT("PEXP " \o ToJson([r |-> r, ok |-> c.ok, run |-> c.run, und |-> c.und, c |-> c.c,
                                           calls |-> IF c.ok THEN Methods(ExprCalls(r)) ELSE <<>>])) THEN "" ELSE "")
       ELSE ""
CheckModule(i) ==
  LET m == ModCases[i]  cc == ModuleClause(m) IN
  IF cc # "" THEN cc
  ELSE IF PrintT("PMOD " \o ToJson([m |-> m, files |-> ModuleFiles(m).files])) THEN "" ELSE ""
CheckSpec(i) == IF i <= NE THEN CheckExpr(i) ELSE CheckModule(i - NE)
INSTANCE TraceBlocks WITH NCases <- Len(SpecCases), Check <- CheckSpec
=============================================================================
