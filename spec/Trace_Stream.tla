---------------------------- MODULE Trace_Stream ----------------------------
(***************************************************************************)
(* Code -> spec validation of whole byte strings run by the Rust checker.  *)
(* kind "phase":  execute_instructions on a given pre-state in one phase   *)
(* kind "verify": the real verify() on three byte strings (out), the       *)
(*                harness own three-phase run (own, post..), and optionally   *)
(*                the exit status of the checker binary (bin).             *)
(* Clauses:                                                                *)
(*   verdict  : accept/reject differs from MLMachine (RunPhase / Verify)   *)
(*   state    : accepted but final stack / memory / claims differ          *)
(*   harness  : verify() accepted (as the machine does) but the harness' own *)
(*              three-phase run did not: final state unobservable           *)
(*   binary   : checker binary exit status disagrees with verify()         *)
(***************************************************************************)
EXTENDS MLMachine, Json, IOUtils, TLCExt
CONSTANTS BlockSize
Cases == ndJsonDeserialize(IOEnv.CASES)
VARIABLE blk
Pre(c) == [stack |-> c.stack, memory |-> c.memory, claims |-> c.claims, phase |-> c.phase,
           journal |-> EmptyJournal]
SameState(s, c) == s.stack = c.post /\ s.memory = c.postmem /\ s.claims = c.postclaims
CheckCase(i) ==
  LET c == Cases[i] IN
  IF c.kind = "phase"
  THEN LET r == RunPhase(c.bytes, Pre(c)) IN
       IF r.ok # (c.out = "ok") THEN "verdict"
       ELSE IF r.ok /\ ~SameState(r.st, c) THEN "state" ELSE ""
  ELSE LET r == Verify(c.gamma, c.claim, c.proof) IN
       IF r.ok # (c.out = "ok") THEN "verdict"           \* the REAL verify() against the machine
       ELSE IF c.bin # "none" /\ c.bin # c.out THEN "binary"
       ELSE IF r.ok /\ c.own = "ok" /\ ~SameState(r.st, c) THEN "state"   \* final state observed by the harness' own run
       ELSE IF r.ok /\ c.own # "ok" THEN "harness"
       ELSE ""
INSTANCE TraceBlocks WITH NCases <- Len(Cases), Check <- CheckCase
=============================================================================
