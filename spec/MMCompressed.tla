---------------------------- MODULE MMCompressed ----------------------------
(***************************************************************************)
(* Metamath book, Appendix B: compressed proof format.                     *)
(* A step number is written as zero or more "high" letters U..Y (digits    *)
(* 1..5 of a bijective base-5 numeral, most significant first) followed by *)
(* one "low" letter A..T (1..20):   n = 20 * high + low.                   *)
(* Letters are represented by numbers A=1 .. Y=25, Z=26.                   *)
(* Step numbers 1..m are the mandatory hypotheses (database order),        *)
(* m+1..m+l the labels listed between the parentheses, larger numbers      *)
(* refer to the steps marked with Z, in order of marking.                  *)
(***************************************************************************)
EXTENDS Naturals, Sequences, TLC

IsLow(c)  == c \in 1..20
IsHigh(c) == c \in 21..25
Z == 26

RECURSIVE HighValue(_)
HighValue(w) == IF w = <<>> THEN 0 ELSE 5 * HighValue(SubSeq(w, 1, Len(w) - 1)) + (w[Len(w)] - 20)
\* decode one complete word (all high letters, then one low letter)
Decode(w) == 20 * HighValue(SubSeq(w, 1, Len(w) - 1)) + w[Len(w)]
WellFormedWord(w) == Len(w) >= 1 /\ IsLow(w[Len(w)]) /\ \A k \in 1..(Len(w) - 1) : IsHigh(w[k])

RECURSIVE HighDigits(_)
HighDigits(h) == IF h = 0 THEN <<>> ELSE LET d == ((h - 1) % 5) + 1 IN Append(HighDigits((h - d) \div 5), d + 20)
Encode(n) == LET low == ((n - 1) % 20) + 1 IN Append(HighDigits((n - low) \div 20), low)

\* split a letter string (no whitespace) into steps: numbers, 0 for Z
RECURSIVE Steps(_, _)
Steps(s, buf) ==
  IF s = <<>> THEN <<>>
  ELSE IF Head(s) = Z THEN <<0>> \o Steps(Tail(s), buf)
  ELSE IF IsLow(Head(s)) THEN <<Decode(Append(buf, Head(s)))>> \o Steps(Tail(s), <<>>)
  ELSE Steps(Tail(s), Append(buf, Head(s)))

\* label table: mandatory hypotheses (database order), then the listed labels
Layout(mand, listed) == mand \o listed
=============================================================================
