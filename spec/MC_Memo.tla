-------------------------------- MODULE MC_Memo --------------------------------
(***************************************************************************)
(* Every (p, S, initial memory) is one case: the composite pattern(p)      *)
(* under memo set S is folded over the tracker and over the machine run on *)
(* the emitted bytes; the machine must accept, Rel must hold after every   *)
(* primitive call, and the machine must end with exactly the expansion of  *)
(* p on top.  The case is printed (MEMO json) for replay on the real       *)
(* MemoizingInterpreter.  Mode "trace" compares the primitive calls the    *)
(* real wrapper made with PatCalls (clause calls).                         *)
(***************************************************************************)
EXTENDS Memo, MLUniverse, Json, IOUtils, TLCExt, SequencesExt
CONSTANTS BlockSize, Mode, MaxPSize
VARIABLE blk

PU == {p \in NU1 : Size(Expand(p)) <= MaxPSize /\ ~HasAbort(Expand(p))}
      \cup {Imp(a, a) : a \in {NNeg(EV(0)), Imp(CMV(0), CMV(1)), NAnd(EV(0), CMV(1)), Ex(0, NNeg(EV(0)))}}
      \cup {NAnd(NNeg(CMV(0)), NNeg(CMV(0))), Imp(NOr(CMV(0), EV(1)), NOr(CMV(0), EV(1))), App(Sym(0), App(Sym(1), Sym(0)))}
RECURSIVE HasSym(_)
HasSym(p) == CASE p.t = "sym" -> TRUE
               [] p.t \in {"imp", "app"} -> HasSym(p.l) \/ HasSym(p.r)
               [] p.t \in {"ex", "mu"} -> HasSym(p.p)
               [] p.t \in {"es", "ss"} -> HasSym(p.p) \/ HasSym(p.g)
               [] p.t = "inst" -> HasSym(p.p) \/ \E k \in 1..Len(p.d) : HasSym(p.d[k][2])
               [] OTHER -> FALSE
\* pre-existing memory (symbol-free entries only: the serializer's symbol table starts empty)
Mems(p) == {<<>>} \cup {<<Pat(q)>> : q \in {s \in Subterms(p) : s.t \in {"imp", "inst", "ex"} /\ ~HasSym(s)}}
           \cup (IF HasSym(p) THEN {} ELSE {<<Prf(p)>>, <<Prf(p), Pat(p)>>})
MemoSets(p) == LET subs == {s \in Subterms(p) : s.t \notin {"ev", "sv"}} IN
               {{}} \cup {{s} : s \in subs} \cup {{s, r} : s \in {p}, r \in subs} \cup {subs}
SpecCases == SetToSeq(UNION {{<<p, S, m>> : S \in MemoSets(p), m \in Mems(p)} : p \in PU})

\* tracker / machine with the given memory (proof phase, no claims)
G0(mem) == [GInit(<<>>) EXCEPT !.phase = "proof", !.memory = mem]
M0(mem) == [InitState("proof") EXCEPT !.memory = [k \in 1..Len(mem) |-> Img(mem[k], <<>>)]]
RECURSIVE FoldOK(_, _, _)
FoldOK(g, ms, cs) ==       \* [ok, g, ms]
  IF cs = <<>> THEN [ok |-> TRUE, g |-> g, ms |-> ms]
  ELSE LET r == GStep(g, Head(cs)) IN
       IF ~r.ok THEN [ok |-> FALSE, g |-> g, ms |-> ms]
       ELSE LET m1 == RunPhase(r.bytes, ms) IN
            IF ~m1.ok \/ ~Rel(r.g, m1.st) THEN [ok |-> FALSE, g |-> r.g, ms |-> m1.st]
            ELSE FoldOK(r.g, m1.st, Tail(cs))
NoSymbols(p) == TRUE
CheckSpec(i) ==
  LET c == SpecCases[i]  p == c[1]  S == c[2]  mem == c[3]
      pc == PatCalls(p, [calls |-> <<>>, mem |-> mem], S)
      plain == FoldOK(G0(<<>>), M0(<<>>), PatCalls(p, [calls |-> <<>>, mem |-> <<>>], {}).calls)
  IN IF \E k \in 1..Len(mem) : HasAbort(Expand(mem[k].p)) THEN ""
     ELSE IF ~plain.ok THEN ""          \* p itself is not buildable on the machine (known tracker findings): no claim about memoisation
     ELSE LET f == FoldOK(G0(mem), M0(mem), pc.calls) IN
          IF ~f.ok THEN "composite-breaks-rel"
          ELSE IF f.ms.stack # <<Pat(RenameSym(Expand(p), f.g.syms))>> THEN "composite-builds-other-term"
          ELSE IF PrintT("MEMO " \o ToJson([p |-> p, S |-> S, mem |-> mem,
                                            calls |-> [k \in 1..Len(pc.calls) |-> pc.calls[k].m]])) THEN "" ELSE ""

Cases == IF Mode = "trace" THEN ndJsonDeserialize(IOEnv.CASES) ELSE <<>>
CheckTrace(i) ==
  LET c == Cases[i]
      pc == PatCalls(c.p, [calls |-> <<>>, mem |-> c.mem], {c.S[k] : k \in 1..Len(c.S)})
  IN IF c.out # "ok" THEN "raised"
     ELSE IF c.methods # [k \in 1..Len(pc.calls) |-> pc.calls[k].m] THEN "calls"
     ELSE ""
N == IF Mode = "trace" THEN Len(Cases) ELSE Len(SpecCases)
CheckAny(i) == IF Mode = "trace" THEN CheckTrace(i) ELSE CheckSpec(i)
INSTANCE TraceBlocks WITH NCases <- N, Check <- CheckAny
=============================================================================
