------------------------------ MODULE Resolution ------------------------------
(***************************************************************************)
(* The saturation loop of Tautology.resolution_algorithm as a state        *)
(* machine, one action per visited pair of clauses.                        *)
(*                                                                         *)
(*   for cl1 in l:                  (l grows while it is iterated)         *)
(*     for cl2 in l:                                                       *)
(*       if cl2 == cl1: break                                              *)
(*       res = resolvable(cl1, cl2)   exactly one complementary literal    *)
(*       if res and res_set not in hint: hint[res_set] = ..; l.append(..)  *)
(*       if res_set == {}: return True                                     *)
(*   return False                                                          *)
(*                                                                         *)
(* Clauses are sets of non-zero integers (n = variable, -n = negation);    *)
(* clauses containing a complementary pair are removed before the loop     *)
(* (start_resolution_algorithm).  Properties checked by TLC over ALL small  *)
(* initial clause lists (in every order):                                  *)
(*   Sound    : found => the initial clause set is unsatisfiable           *)
(*   Complete : the loop ends without finding the empty clause => the      *)
(*              initial set is satisfiable                                 *)
(*   the loop terminates (the state graph is finite and acyclic)           *)
(* Clobber = TRUE reproduces the defect of the pinned code (the inner loop *)
(* compares against a swapped loop variable) and makes Complete fail.      *)
(* In mode "trace" the recorded sequence of resolvable(c1, c2) calls of    *)
(* the real implementation must be exactly the sequence this machine       *)
(* visits, and its verdict the machine's verdict.                          *)
(***************************************************************************)
EXTENDS Integers, Sequences, FiniteSets, TLC, Json, IOUtils, TLCExt
CONSTANTS Lits, MaxClauses, MaxLen, Clobber, Mode
VARIABLES l, i, j, hint, found, done, init, c1cur, tl
vars == <<l, i, j, hint, found, done, init, c1cur, tl>>

Lits3 == {1, -1, 2, -2, 3, -3}
Lits2 == {1, -1, 2, -2}
Traces == IF Mode = "trace" THEN ndJsonDeserialize(IOEnv.CASES) ELSE <<>>
SeqSet(s) == {s[k] : k \in 1..Len(s)}
Trivial(c) == \E a \in c : -a \in c
Resolvable(c1, c2) == LET common == {x \in c2 : -x \in c1} IN Cardinality(common) = 1
Resolvent(c1, c2) == LET r == CHOOSE x \in c2 : -x \in c1 IN (c1 \ {-r}) \cup (c2 \ {r})
ResLit(c1, c2) == CHOOSE x \in c2 : -x \in c1
Sat(cls) == LET vs == {IF x < 0 THEN -x ELSE x : x \in UNION cls} IN
            \E val \in [vs -> BOOLEAN] : \A c \in cls : \E x \in c : IF x > 0 THEN val[x] ELSE ~val[-x]

Clauses == {c \in SUBSET Lits : c # {} /\ Cardinality(c) <= MaxLen /\ ~Trivial(c)}
RECURSIVE Lists(_)
Lists(n) == IF n = 0 THEN {<<>>} ELSE {Append(s, c) : s \in Lists(n - 1), c \in Clauses}
Distinct(s) == \A a \in 1..Len(s) : \A b \in 1..Len(s) : a # b => s[a] # s[b]
ToSet(s) == [k \in 1..Len(s) |-> {s[k][m] : m \in 1..Len(s[k])}]

Start(l0) == /\ l = l0 /\ init = l0 /\ i = 1 /\ j = 1 /\ hint = SeqSet(l0) /\ found = FALSE /\ done = (l0 = <<>>)
             /\ c1cur = IF l0 = <<>> THEN {} ELSE l0[1]
Init == IF Mode = "trace"
        THEN \E t \in 1..Len(Traces) : tl = <<t, 1>> /\ Start(ToSet(Traces[t].clauses))
        ELSE tl = <<0, 0>> /\ \E n \in 1..MaxClauses : \E l0 \in {s \in Lists(n) : Distinct(s)} : Start(l0)

\* one iteration of the inner loop body (or the move to the next outer element)
Visit ==
  /\ ~done
  /\ IF j > Len(l) \/ l[j] = c1cur                       \* inner loop exhausted or "if cl2 == cl1: break"
     THEN /\ IF i + 1 > Len(l) THEN done' = TRUE /\ UNCHANGED <<i, c1cur>>
             ELSE done' = FALSE /\ i' = i + 1 /\ c1cur' = l[i + 1]
          /\ j' = 1 /\ UNCHANGED <<l, hint, found, tl>>
     ELSE LET c2 == l[j] IN
          /\ (Mode = "trace" =>            \* the implementation must be visiting exactly this pair now
                LET tr == Traces[tl[1]] IN
                IF tl[2] <= Len(tr.calls) /\ {tr.calls[tl[2]][1][m] : m \in 1..Len(tr.calls[tl[2]][1])} = c1cur
                                         /\ {tr.calls[tl[2]][2][m] : m \in 1..Len(tr.calls[tl[2]][2])} = c2
                THEN TRUE ELSE PrintT(<<"FAIL", tl[1], tl[2], "pair">>))
          /\ tl' = <<tl[1], tl[2] + 1>>
          /\ IF Resolvable(c1cur, c2) /\ Resolvent(c1cur, c2) \notin hint
             THEN LET r == Resolvent(c1cur, c2) IN
                  /\ hint' = hint \cup {r}
                  /\ IF r = {} THEN found' = TRUE /\ done' = TRUE /\ UNCHANGED l
                     ELSE l' = Append(l, r) /\ UNCHANGED <<found, done>>
                  \* the pinned code swapped cl1, cl2 here when the resolvent literal is negative
                  /\ c1cur' = IF Clobber /\ ResLit(c1cur, c2) < 0 THEN c2 ELSE c1cur
             ELSE UNCHANGED <<l, hint, found, done, c1cur>>
          /\ j' = j + 1 /\ UNCHANGED i
  /\ UNCHANGED init
\* end of a recorded trace: verdict and number of calls must agree
Finish ==
  /\ Mode = "trace" /\ done /\ tl[2] > 0
  /\ LET tr == Traces[tl[1]] IN
     /\ IF tl[2] # Len(tr.calls) + 1 THEN PrintT(<<"FAIL", tl[1], tl[2], "call-count">>) ELSE TRUE
     /\ IF found # tr.found THEN PrintT(<<"FAIL", tl[1], tl[2], "verdict">>) ELSE TRUE
     /\ PrintT(<<"DONE", tl[1], Len(tr.calls)>>)
  /\ tl' = <<tl[1], 0>> /\ UNCHANGED <<l, i, j, hint, found, done, init, c1cur>>
Next == Visit \/ Finish
Spec == Init /\ [][Next]_vars

Sound    == found => ~Sat(SeqSet(init))
Complete == (done /\ ~found) => Sat(SeqSet(init))
=============================================================================
