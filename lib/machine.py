"""Instruction records (same shape as MLMachine!Ins), their wire encoding, and helpers to
drive the Rust step harness.  Encoding here is only used to FEED the implementation; the
trace specification re-decodes the bytes itself (clause "decode")."""
from __future__ import annotations
import json
from pi2v import prefix, rust_run, tkey

OPS = {"EVar": 2, "SVar": 3, "Symbol": 4, "Implies": 5, "App": 6, "Mu": 7, "Exists": 8, "MetaVar": 9, "ESubst": 10,
       "SSubst": 11, "Prop1": 12, "Prop2": 13, "Prop3": 14, "Quantifier": 15, "PropagationOr": 16,
       "PropagationExists": 17, "PreFixpoint": 18, "Existence": 19, "Singleton": 20, "ModusPonens": 21,
       "Generalization": 22, "Frame": 23, "Substitution": 24, "KnasterTarski": 25, "Instantiate": 26, "Pop": 27,
       "Save": 28, "Load": 29, "Publish": 30, "CleanMetaVar": 137}
ONE = {"EVar", "SVar", "Symbol", "Mu", "Exists", "ESubst", "SSubst", "Generalization", "Substitution", "Load",
       "CleanMetaVar"}


def ins(op, n=0, ids=(), cs=()):
    return {"op": op, "n": n, "ids": list(ids), "cs": [list(x) for x in cs]}


def iinst(ids):
    return ins("Instantiate", len(ids), ids)


def encode(i) -> list[int]:
    op = i["op"]
    if op in ONE:
        return [OPS[op], i["n"]]
    if op == "Instantiate":
        return [26, len(i["ids"])] + list(i["ids"])
    if op == "MetaVar":
        out = [9, i["n"]]
        for l in i["cs"]:
            out += [len(l)] + list(l)
        return out
    return [OPS[op]]


def decode_stream(bs: list[int]):
    """Split a well-formed byte string into instruction records (used only to step through
    streams the implementation accepts; the spec re-decodes)."""
    rev = {v: k for k, v in OPS.items()}
    i, out = 0, []
    while i < len(bs):
        op = rev.get(bs[i])
        if op is None:
            return out, i
        try:
            if op in ONE:
                out.append((ins(op, bs[i + 1]), bs[i:i + 2])); i += 2
            elif op == "Instantiate":
                n = bs[i + 1]
                if i + 2 + n > len(bs):
                    return out, i
                out.append((iinst(bs[i + 2:i + 2 + n]), bs[i:i + 2 + n])); i += 2 + n
            elif op == "MetaVar":
                j = i + 2; cs = []
                for _ in range(5):
                    ln = bs[j]
                    if j + 1 + ln > len(bs):
                        return out, i
                    cs.append(bs[j + 1:j + 1 + ln]); j += 1 + ln
                out.append((ins("MetaVar", bs[i + 1], (), cs), bs[i:j])); i = j
            else:
                out.append((ins(op), bs[i:i + 1])); i += 1
        except IndexError:
            return out, i
    return out, -1


def setup_cmds(stack, memory, claims):
    cmds = ["reset"]
    for e in memory:
        cmds.append(f"mem {e['k']} {prefix(e['p'])}")
    for c in claims:
        cmds.append(f"claim {prefix(c)}")
    for e in stack:
        cmds.append(f"push {e['k']} {prefix(e['p'])}")
    return cmds


def replay_steps(pairs):
    """pairs: list of (pre-state dict {stack,memory,claims,phase,gamma}, instruction record).
    Returns mstep case records with the implementation's outcome."""
    cmds, idx = [], []
    for pre, i in pairs:
        cmds += setup_cmds(pre['stack'], pre['memory'], pre['claims'])
        bs = encode(i)
        cmds.append(f"exec {pre['phase']} " + ' '.join(map(str, bs)))
        idx.append(len(cmds) - 1)
    res = rust_run(cmds)
    cases = []
    for (pre, i), k in zip(pairs, idx):
        r = res[k]
        cases.append({"stack": pre['stack'], "memory": pre['memory'], "claims": pre['claims'], "phase": pre['phase'],
                      "gamma": pre.get('gamma', []), "ins": i, "bytes": encode(i), "out": r['out'],
                      "post": r['stack'], "postmem": r['memory'], "postclaims": r['claims']})
    return cases
