"""Shared plumbing of the pi2 verification machinery.

Nothing in this file judges a property: it builds the harnesses from the current
working tree of the repository, drives them, runs TLC on the TLA+ specifications in
/verif/spec and turns TLC's output (FAIL lines printed by the trace specifications,
invariant violations, counters) into exit status, replay files and evidence.
"""
from __future__ import annotations

import hashlib
import json
import os
import re
import shutil
import subprocess
import sys
import time

VERIF = os.path.dirname(os.path.dirname(os.path.abspath(__file__)))
REPO = os.environ.get('PI2_REPO', '/repo')
BUILD = os.environ.get('PI2_BUILD', os.path.join(VERIF, 'build'))
SPEC = os.path.join(VERIF, 'spec')
PY = '/venv/bin/python'
JAR = '/opt/veriftools/tla/tla2tools.jar:/opt/veriftools/tla/CommunityModules-deps.jar'
SEED = int(os.environ.get('VERIF_SEED', '0') or 0)


class MachineryError(Exception):
    """The verification machinery itself failed (exit status 2), not the repository."""


def log(*a):
    print(*a, file=sys.stderr, flush=True)


def workdir(name: str) -> str:
    d = os.path.join(BUILD, name)
    shutil.rmtree(d, ignore_errors=True)
    os.makedirs(d, exist_ok=True)
    return d


# ---------------------------------------------------------------------------
# Rust harness
# ---------------------------------------------------------------------------
def build_rust() -> str:
    d = os.path.join(BUILD, 'rs')
    os.makedirs(d, exist_ok=True)
    src = open(os.path.join(REPO, 'rust/src/lib.rs')).read()
    tail = open(os.path.join(VERIF, 'harness/rs/tail.rs')).read()
    h = hashlib.sha256((src + tail).encode()).hexdigest()[:16]
    exe = os.path.join(d, 'harness-' + h)
    if not os.path.exists(exe):
        for f in os.listdir(d):
            if f.startswith('harness-') or f.startswith('checker-'):
                os.remove(os.path.join(d, f))
        with open(os.path.join(d, 'h.rs'), 'w') as f:
            f.write(src + tail)
        r = subprocess.run(['rustc', '+stable', '-O', '--cap-lints', 'warn', os.path.join(d, 'h.rs'), '-o', exe],
                           capture_output=True, text=True)
        if r.returncode != 0:
            raise MachineryError('rust harness does not build:\n' + r.stderr[-3000:])
    return exe


def build_checker() -> str:
    """The checker binary exactly as the Makefile would build it (lib + main.rs)."""
    d = os.path.join(BUILD, 'rs')
    os.makedirs(d, exist_ok=True)
    src = open(os.path.join(REPO, 'rust/src/lib.rs')).read() + open(os.path.join(REPO, 'rust/src/main.rs')).read()
    h = hashlib.sha256(src.encode()).hexdigest()[:16]
    exe = os.path.join(d, 'checker-' + h)
    if not os.path.exists(exe):
        rlib = os.path.join(d, 'libchecker.rlib')
        r = subprocess.run(['rustc', '+stable', '--edition', '2021', '-O', '--cap-lints', 'warn', '--crate-type', 'rlib',
                            '--crate-name', 'checker', os.path.join(REPO, 'rust/src/lib.rs'), '-o', rlib],
                           capture_output=True, text=True)
        if r.returncode != 0:
            raise MachineryError('checker lib does not build:\n' + r.stderr[-3000:])
        r = subprocess.run(['rustc', '+stable', '--edition', '2021', '-O', '--cap-lints', 'warn', '--extern',
                            'checker=' + rlib, os.path.join(REPO, 'rust/src/main.rs'), '-o', exe],
                           capture_output=True, text=True)
        if r.returncode != 0:
            raise MachineryError('checker binary does not build:\n' + r.stderr[-3000:])
    return exe


def rust_run(lines: list[str]) -> list[dict]:
    exe = build_rust()
    r = subprocess.run([exe], input='\n'.join(lines) + '\n', capture_output=True, text=True)
    out = [json.loads(l) for l in r.stdout.splitlines() if l.strip()]
    if len(out) != len(lines):
        raise MachineryError(f'rust harness answered {len(out)} of {len(lines)} commands; rc={r.returncode} '
                             + r.stderr[-500:])
    return out


def py_run(cmds: list[dict], script: str = 'pyharness.py', hashseed: str = '0', extra_env=None) -> list[dict]:
    """Run the Python harness (inside the repo's interpreter, importing the CURRENT working tree)."""
    e = dict(os.environ)
    e['PYTHONPATH'] = os.path.join(REPO, 'generation/src') + ':' + os.path.join(VERIF, 'harness/py')
    e['PYTHONHASHSEED'] = hashseed
    e['PYTHONDONTWRITEBYTECODE'] = '1'
    if extra_env:
        e.update(extra_env)
    r = subprocess.run([PY, os.path.join(VERIF, 'harness/py', script)], input='\n'.join(json.dumps(c) for c in cmds) + '\n',
                       capture_output=True, text=True, env=e)
    out = [json.loads(l) for l in r.stdout.splitlines() if l.strip()]
    if len(out) != len(cmds):
        raise MachineryError(f'python harness answered {len(out)} of {len(cmds)} commands; rc={r.returncode}\n' + r.stderr[-2000:])
    return out


_UNIV = None


def universes() -> dict:
    """The closed term universes, generated by TLC from spec/MLUniverse.tla (cached per spec text)."""
    global _UNIV
    if _UNIV is not None:
        return _UNIV
    src = ''.join(open(os.path.join(SPEC, f)).read() for f in ('MLCore.tla', 'MLUniverse.tla', 'MC_Universe.tla'))
    h = hashlib.sha256(src.encode()).hexdigest()[:16]
    os.makedirs(BUILD, exist_ok=True)
    cache = os.path.join(BUILD, f'universe-{h}.json')
    if not os.path.exists(cache):
        wd = workdir('universe')
        res = run_tlc('MC_Universe', 'SPECIFICATION Spec\n', wd, workers=1)
        tlc_must_be_clean(res, 'MC_Universe')
        u = {}
        for line in res.out.splitlines():
            line = line.strip()
            if line.startswith('"') and line.endswith('"'):
                sp = json.loads(line)
                name, _, body = sp.partition(' ')
                if body.startswith('['):
                    u[name] = json.loads(body)
        if set(u) != {'U1', 'U2S', 'NU1', 'NU2S'}:
            raise MachineryError('universe export incomplete: ' + str(sorted(u)))
        json.dump(u, open(cache, 'w'))
    _UNIV = json.load(open(cache))
    return _UNIV


# ---------------------------------------------------------------------------
# Terms: JSON dict (the shape of the TLA+ records)  <->  prefix text for Rust
# ---------------------------------------------------------------------------
def EV(i): return {'t': 'ev', 'i': i}
def SV(i): return {'t': 'sv', 'i': i}
def SYM(i): return {'t': 'sym', 'i': i}
def IMP(l, r): return {'t': 'imp', 'l': l, 'r': r}
def APP(l, r): return {'t': 'app', 'l': l, 'r': r}
def EX(v, p): return {'t': 'ex', 'v': v, 'p': p}
def MU(v, p): return {'t': 'mu', 'v': v, 'p': p}
def MV(i, ef=(), sf=(), pos=(), neg=(), hol=()):
    return {'t': 'mv', 'i': i, 'ef': list(ef), 'sf': list(sf), 'pos': list(pos), 'neg': list(neg), 'hol': list(hol)}
def ES(p, v, g): return {'t': 'es', 'p': p, 'v': v, 'g': g}
def SS(p, v, g): return {'t': 'ss', 'p': p, 'v': v, 'g': g}
def NINST(p, d): return {'t': 'inst', 'p': p, 'd': [[k, v] for k, v in d]}
BOT = MU(0, SV(0))
def NOT(p): return IMP(p, BOT)


def prefix(t: dict) -> str:
    k = t['t']
    if k in ('ev', 'sv', 'sym'):
        return f"{k} {t['i']}"
    if k in ('imp', 'app'):
        return f"{k} {prefix(t['l'])} {prefix(t['r'])}"
    if k in ('ex', 'mu'):
        return f"{k} {t['v']} {prefix(t['p'])}"
    if k == 'mv':
        ls = ' '.join(f"{len(t[f])} " + ' '.join(map(str, t[f])) for f in ('ef', 'sf', 'pos', 'neg', 'hol'))
        return f"mv {t['i']} " + ' '.join(ls.split())
    if k in ('es', 'ss'):
        return f"{k} {prefix(t['p'])} {t['v']} {prefix(t['g'])}"
    raise ValueError(k)


def tsize(t: dict) -> int:
    k = t['t']
    if k in ('imp', 'app'):
        return 1 + tsize(t['l']) + tsize(t['r'])
    if k in ('ex', 'mu'):
        return 1 + tsize(t['p'])
    if k in ('es', 'ss'):
        return 1 + tsize(t['p']) + tsize(t['g'])
    if k == 'inst':
        return 1 + tsize(t['p']) + sum(tsize(v) for _, v in t['d'])
    return 1


def tkey(t) -> str:
    return json.dumps(t, sort_keys=True, separators=(',', ':'))


# ---------------------------------------------------------------------------
# TLC
# ---------------------------------------------------------------------------
class TLCResult:
    def __init__(self, out: str, rc: int, wall: float):
        self.out, self.rc, self.wall = out, rc, wall
        m = re.findall(r'(\d+) states generated, (\d+) distinct states found', out)
        self.generated = int(m[-1][0]) if m else 0
        self.distinct = int(m[-1][1]) if m else 0
        self.fails = []      # parsed FAIL tuples
        self.dones = []
        self.infos = []
        for tup in parse_printed(out):
            if tup and tup[0] == 'FAIL':
                self.fails.append(tup)
            elif tup and tup[0] == 'DONE':
                self.dones.append(tup)
            elif tup and tup[0] == 'INFO':
                self.infos.append(tup)
        self.invariant_violated = re.findall(r'Invariant (\S+) is violated', out)
        self.finished = 'Model checking completed' in out or 'Finished in' in out
        self.error = None
        if rc != 0 and not self.invariant_violated:
            m = re.search(r'Error: (.*)', out)
            self.error = (m.group(1) if m else 'TLC exit %d' % rc)
        self.coverage = {}
        for m in re.finditer(r'<(\w+) line \d+, col \d+ to line \d+, col \d+ of module (\w+)>: (\d+):(\d+)', out):
            self.coverage[m.group(2) + '.' + m.group(1)] = (int(m.group(3)), int(m.group(4)))


_TOK = re.compile(r'<<|>>|"(?:[^"\\]|\\.)*"|-?\d+|TRUE|FALSE|,')


def parse_printed(out: str):
    """Yield the tuples printed by PrintT(<<"TAG", ...>>) (flat tuples of strings / ints / booleans)."""
    for line in out.splitlines():
        line = line.strip()
        if not line.startswith('<<"'):
            continue
        toks = _TOK.findall(line)
        if not toks or toks[0] != '<<' or toks[-1] != '>>':
            continue
        stack = [[]]
        ok = True
        for tk in toks:
            if tk == '<<':
                stack.append([])
            elif tk == '>>':
                if len(stack) < 2:
                    ok = False
                    break
                x = stack.pop()
                stack[-1].append(x)
            elif tk == ',':
                pass
            elif tk[0] == '"':
                stack[-1].append(json.loads(tk))
            elif tk in ('TRUE', 'FALSE'):
                stack[-1].append(tk == 'TRUE')
            else:
                stack[-1].append(int(tk))
        if ok and len(stack) == 1 and stack[0]:
            yield stack[0][0]


def run_tlc(module: str, cfg: str, wd: str, env: dict | None = None, workers: int = 16, timeout: int = 3600,
            extra: list[str] | None = None, coverage: bool = False) -> TLCResult:
    """Run TLC on spec/<module>.tla with the given cfg text inside working directory wd."""
    for f in os.listdir(SPEC):
        if f.endswith('.tla'):
            shutil.copy(os.path.join(SPEC, f), wd)
    cfgp = os.path.join(wd, module + '.cfg')
    with open(cfgp, 'w') as f:
        f.write(cfg)
    e = dict(os.environ)
    e.pop('JAVA_TOOL_OPTIONS', None)
    if env:
        e.update({k: str(v) for k, v in env.items()})
    cmd = ['java', '-XX:+UseParallelGC', '-Xss64m', '-Xmx24g', '-cp', JAR, 'tlc2.TLC', '-workers', str(workers), '-metadir',
           os.path.join(wd, 'meta'), '-noGenerateSpecTE', '-config', cfgp]
    if coverage:
        cmd += ['-coverage', '1']
    cmd += (extra or []) + [module]
    t0 = time.time()
    try:
        r = subprocess.run(cmd, cwd=wd, env=e, capture_output=True, text=True, timeout=timeout)
    except subprocess.TimeoutExpired as ex:
        out = (ex.stdout or b'').decode() if isinstance(ex.stdout, bytes) else (ex.stdout or '')
        with open(os.path.join(wd, module + '.out'), 'w') as f:
            f.write(out)
        raise MachineryError(f'TLC timed out after {timeout}s on {module}')
    wall = time.time() - t0
    out = r.stdout + r.stderr
    with open(os.path.join(wd, module + '.out'), 'w') as f:
        f.write(out)
    shutil.rmtree(os.path.join(wd, 'meta'), ignore_errors=True)
    res = TLCResult(out, r.returncode, wall)
    return res


def tlc_must_be_clean(res: TLCResult, what: str):
    if res.error or not res.finished:
        tail = '\n'.join(res.out.splitlines()[-40:])
        raise MachineryError(f'TLC failed on {what}: {res.error}\n{tail}')


def write_ndjson(path: str, recs):
    with open(path, 'w') as f:
        for r in recs:
            f.write(json.dumps(r, separators=(',', ':')) + '\n')


# ---------------------------------------------------------------------------
# Verdicts, known findings, evidence
# ---------------------------------------------------------------------------
def load_known():
    p = os.path.join(VERIF, 'known_findings.json')
    if not os.path.exists(p):
        return []
    return json.load(open(p)).get('findings', [])


class Verdict:
    """Collects the outcome of one property check."""

    def __init__(self, pid: str, tier: str):
        self.pid, self.tier = pid, tier
        self.t0 = time.time()
        self.violations = []     # (key, description, replay-object)
        self.known_hit = {}      # finding id -> count
        self.cov = {'states': 0, 'transitions': 0, 'traces_validated_against_impl': 0, 'samples': []}
        self.assumptions = []
        self.known = [k for k in load_known() if k.get('property') == pid and k.get('status', 'open') == 'open']

    def add_tlc(self, res: TLCResult):
        self.cov['states'] += res.distinct
        self.cov['transitions'] += res.generated

    def fail(self, key: str, desc: str, replay: dict):
        """A non-conforming observation. key identifies the specific failing case."""
        rk = os.environ.get('PI2_REPLAY_KEY')
        if rk is not None and key != rk:
            return          # replay mode: only the recorded case is of interest
        for k in self.known:
            if re.fullmatch(k['match'], key):
                self.known_hit.setdefault(k['id'], [k, 0])[1] += 1
                return
        self.violations.append((key, desc, replay))

    def sample(self, s):
        if len(self.cov['samples']) < 6:
            self.cov['samples'].append(s)

    def finish(self) -> int:
        evdir = os.environ.get('PI2_EVIDENCE_DIR', os.path.join(VERIF, 'evidence'))
        os.makedirs(evdir, exist_ok=True)
        for kid, (k, n) in sorted(self.known_hit.items()):
            print(f"KNOWN-FINDING: property={self.pid} {k['what']} [{kid}; {n} observation(s)]")
        rc = 0
        if self.violations:
            rc = 1
            rdir = os.path.join(BUILD, 'replay')
            os.makedirs(rdir, exist_ok=True)
            seen = set()
            for key, desc, replay in self.violations[:8]:
                if key in seen:
                    continue
                seen.add(key)
                h = hashlib.sha256(key.encode()).hexdigest()[:10]
                path = os.path.join(rdir, f'{self.pid}-{h}.json')
                with open(path, 'w') as f:
                    json.dump({'property': self.pid, 'key': key, 'what': desc, 'seed': SEED, 'tier': self.tier, 'case': replay}, f, indent=1)
                print(f'VIOLATION property={self.pid} replay={path}')
                print(f'  {desc}'[:600])
            if len(self.violations) > 8:
                print(f'  ... {len(self.violations)} non-conforming observations in total')
        cov = dict(self.cov)
        cov['states'] = max(1, cov['states'])
        cov['transitions'] = max(1, cov['transitions'])
        if not cov['samples']:
            cov['samples'] = ['(none recorded)']
        ev = {'property_id': self.pid, 'tier': self.tier, 'seed': SEED, 'level': 'model_checking', 'coverage': cov,
              'assumptions': self.assumptions, 'wall_s': round(time.time() - self.t0, 2),
              'violations': len(self.violations),
              'known_findings_observed': {k: v[1] for k, v in self.known_hit.items()}}
        with open(os.path.join(evdir, self.pid + '.json'), 'w') as f:
            json.dump(ev, f, indent=1)
        return rc
