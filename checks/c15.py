"""C15 - Metamath compressed proofs are decoded as Appendix B says."""
import itertools, random
import pi2v, funcs
from pi2v import py_run, tkey

A2N = {c: i + 1 for i, c in enumerate('ABCDEFGHIJKLMNOPQRSTUVWXYZ')}


def enc(n):            # generator of INPUTS only; TLC re-derives every word with MMCompressed!Encode (clause num-input)
    low = (n - 1) % 20 + 1
    h = (n - low) // 20
    ds = []
    while h > 0:
        d = (h - 1) % 5 + 1
        ds.append(d + 20)
        h = (h - d) // 5
    return list(reversed(ds)) + [low]


def run(v, tier):
    quick = tier == 'quick'
    rng = random.Random(pi2v.SEED)
    maxn = 60000 if quick else 2000000
    v.assumptions += ['letters are handed to TLC as numbers A=1..Z=26; whitespace splitting of the proof text is the harness\' (trusted)',
                      'target statements have no essential hypotheses (unsupported by the translator) and use the benchmark naming <var>-is-pattern for floating hypotheses',
                      'hash seeds are sampled: 0, 1, 2, 3, VERIF_SEED']
    # (A) Appendix B as a theorem of the spec: exhaustive 1..maxn
    res, n = funcs.run_blocks(v, 'C15', 'Trace_MM', 'c15-spec', None, f' Mode = "spec"\n MaxN = {maxn}', bs=1)
    if res.fails:
        raise pi2v.MachineryError(f'MMCompressed violates its own round trip: {res.fails[:3]}')
    v.cov['numbers_roundtripped_in_spec'] = maxn
    # (C) the converter's decoder on every number 1..maxn, chunked
    cases = []
    reqs = []
    chunk = 5000
    for base in range(0, maxn, chunk):
        words = [enc(k) for k in range(base + 1, min(base + chunk, maxn) + 1)]
        reqs.append({'cmd': 'mmnum', 'words': words, '_base': base})
    # windows around the word-length boundaries 5(5^k - 1) and at random places far beyond maxn (7 to 12 letter words)
    for k in range(1, 12):
        reqs.append({'cmd': 'mmnum', 'words': [enc(n) for n in range(5 * (5 ** k - 1) - 3, 5 * (5 ** k - 1) + 6)], '_base': 5 * (5 ** k - 1) - 4})
    for _ in range(40 if quick else 2000):
        b = rng.randrange(maxn, 2 * 10 ** 8)
        reqs.append({'cmd': 'mmnum', 'words': [enc(n) for n in range(b + 1, b + 6)], '_base': b})
    import lem
    res = lem_run(reqs)
    for q, r in zip(reqs, res):
        cases.append({'fam': 'mmnum', 'base': q['_base'], 'words': q['words'], 'out': 'ok' if r['out'] == 'ok' else 'raise', 'nums': r['nums']})
    v.cov['numbers_decoded_by_converter'] = maxn
    # label layout and Z placement, under several hash seeds
    varsets = [[], ['ph0'], ['ph1'], ['ph0', 'ph1'], ['ph1', 'ph0'], ['ph2', 'ph0'], ['ph0', 'ph1', 'ph2'], ['ph2', 'ph1', 'ph0'], ['ph3', 'ph1', 'ph2'],
               ['ph1', 'ph3', 'ph0', 'ph2']]
    listeds = [[], ['imp-is-pattern'], ['imp-is-pattern', 'proof-rule-prop-1'], ['proof-rule-mp', 'proof-rule-prop-2', 'imp-is-pattern', 'proof-rule-prop-1']]
    layouts = ['', 'A', 'AZ', 'ABZC', 'AAABZBZFAFABBGFB', 'UAZVBZ_YTA', 'A_B_Z_C', 'ZA'[1:], 'TUAUTZVA', 'AZBZCZDZEZ', 'UUAZ_YYT']
    wss = [[' ', ' ', ' '], ['\n', '\n  ', '\n'], ['  ', ' ', '']]
    dreqs = []
    for vs in varsets:
        for li in listeds:
            for lay in (layouts if not quick else rng.sample(layouts, 5)):
                # the $v statement may declare the variables in another order than the $f statements (the slicer sorts $v):
                # the mandatory hypotheses follow the $f order
                vorder = rng.choice([['ph0', 'ph1', 'ph2', 'ph3'], ['ph3', 'ph2', 'ph1', 'ph0'], ['ph1', 'ph0', 'ph3', 'ph2'], ['ph2', 'ph3', 'ph0', 'ph1']])
                dreqs.append({'cmd': 'mmdecode', 'vars': vs, 'listed': li, 'layout': lay, 'ws': rng.choice(wss), 'vorder': vorder})
    order = ['ph0', 'ph1', 'ph2', 'ph3']
    seeds = sorted({'0', '1', '2', '3', str(pi2v.SEED)})
    for seed in seeds:
        for q, r in zip(dreqs, py_run(dreqs, script='mmharness.py', hashseed=seed)):
            mand = [f'{x}-is-pattern' for x in order if x in q['vars']]
            cases.append({'fam': 'mmdecode', 'seed': seed, 'vars': q['vars'], 'mand': mand, 'listed': q['listed'],
                          'letters': [A2N[c] for c in q['layout'] if c != '_'], 'out': 'ok' if r['out'] == 'ok' else 'raise', 'exc': r['out'],
                          'labels': r['labels'], 'steps': r['steps']})
    v.cov['layout_cases'] = len(dreqs) * len(seeds)
    v.cov['hash_seeds'] = seeds
    v.sample({k: cases[-1][k] for k in ('seed', 'vars', 'listed', 'letters', 'labels', 'steps')})
    res, _ = funcs.run_blocks(v, 'C15', 'Trace_MM', 'c15-trace', cases, ' Mode = "trace"\n MaxN = 0', bs=8)
    for f in res.fails:
        c = cases[f[1] - 1]
        if f[2] == 'num-input':
            raise pi2v.MachineryError('driver produced a word that is not MMCompressed!Encode of its index')
        if c['fam'] == 'mmnum':
            v.fail(f"{f[2]}:mmnum:{c['base']}", f"numbers {c['base'] + 1}..{c['base'] + len(c['words'])}: clause {f[2]}", {'family': 'mm', 'case': {'base': c['base']}})
        else:
            v.fail(f"{f[2]}:mmdecode:{len(c['vars'])}vars:{c['vars']}:{c['listed']}:{c['letters']}", f"seed {c['seed']} vars {c['vars']} listed {c['listed']}: labels {c['labels']} steps {c['steps'][:12]} ({c['exc']}): clause {f[2]}",
                   {'family': 'mm', 'case': c})


def lem_run(reqs):
    from concurrent.futures import ThreadPoolExecutor
    n = 12
    chunks = [reqs[i::n] for i in range(n)]
    with ThreadPoolExecutor(n) as ex:
        outs = list(ex.map(lambda c: py_run(c, script='mmharness.py') if c else [], chunks))
    res = [None] * len(reqs)
    for i, o in enumerate(outs):
        res[i::n] = o
    return res
