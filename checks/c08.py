"""C08 - a proof means the same under every interpreter."""
import random
import pi2v, funcs, lem, exprs, pexp
from pi2v import tkey, py_run


def run(v, tier):
    quick = tier == 'quick'
    rng = random.Random(pi2v.SEED)
    v.assumptions += ['interpreter stacks: basic, stateful, counting, serializing, pretty, memo(serializing), instopt(stateful), instopt(basic), memo(instopt(serializing)), optimize(serializing) = counting pre-pass + memo']
    cases = []
    # library lemmas under every stack (cheap entries; the pretty printer is quadratic)
    reqs, _ = lem.applications(rng, 2 if quick else 10, max_events=1000 if quick else 4000, interps=True, traces=())
    res = lem.run_applications(reqs)
    cases += lem.interp_cases(reqs, res)
    # DSL edge cases named by the property
    mods = exprs.edge_modules(rng, 12 if quick else 500) + exprs.graph_modules(rng) + exprs.big_modules([40])[1:]     # + the memory-saturating chain
    ereqs = [{'cmd': 'expr', 'module': m, 'interps': True, 'traces': []} for m in mods]
    eres = lem.run_applications(ereqs)
    nb = 0
    for q, r in zip(ereqs, eres):
        if not r.get('built'):
            nb += 1
            continue
        cases.append({'fam': 'interps', 'entry': 'expr', 'args': q['module'], 'advertised': r['advertised'], 'interps': r['interps']})
    cases = [c for c in cases if not any('RecursionError' in i['out'] for i in c['interps'])]     # resource limit, not an outcome
    v.cov['expressions'] = len(cases)
    v.cov['expressions_refused_by_static_rules'] = nb
    v.sample({'module': cases[-1]['args'], 'outcomes': [[i['interp'], i['out']] for i in cases[-1]['interps']]})
    res, _ = funcs.run_blocks(v, 'C08', 'Trace_Lemma', 'c08-interps', cases, '', bs=20)
    for f in res.fails:
        c = cases[f[1] - 1]
        outs = sorted({(i['interp'], i['out']) for i in c['interps']})
        bad = ','.join(f'{a}={b}' for a, b in outs if b != 'ok')
        sig = f"{f[2]}:{c['entry']}:{tkey(c['args'])}"
        v.fail(sig, f"{c['entry']} {tkey(c['args'])[:300]}: clause {f[2]}; failing stacks: {bad[:300]}", {'family': 'interps', 'case': c})
    # expressions enumerated by the model (MC_ProofExp) with the conclusions the documented rules give them
    pcases, pres = pexp.run(v, 'C08', limit=400 if quick else None, rng=rng)
    for f in pres.fails:
        c = pcases[f[1] - 1]
        bad = ','.join(f"{i['interp']}={i['out']}" for i in c['interps'] if i['out'] != 'ok')
        v.fail(f"pexp/{f[2]}:{tkey(pexp.recipe(c['r']))}", f"model-generated expression {tkey(pexp.recipe(c['r']))[:300]}: clause {f[2]}; failing stacks: {bad[:200]}",
               {'family': 'pexp', 'case': c})
