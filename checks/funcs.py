"""Helpers shared by the checks of the functional properties (C06, C07, C11, C12, C13)."""
import os, random
import pi2v
from pi2v import run_tlc, tlc_must_be_clean, workdir, write_ndjson, MachineryError, tkey

CFG = """SPECIFICATION Spec
CONSTANTS
 BlockSize = {bs}
{consts}
CHECK_DEADLOCK FALSE
"""


class _Agg:
    def __init__(self):
        self.fails, self.dones, self.infos, self.wall = [], [], [], 0.0


def run_blocks(v, tag, module, name, cases, consts, bs=100, needs_sem=False, timeout=3000, carrier=2, chunk_bytes=60_000_000):
    """Run a TraceBlocks-style module.  cases=None: spec mode (cases enumerated inside TLC).  Large case lists are
    validated in chunks of about chunk_bytes of ND-JSON (TLC's Json module loads the whole file); FAIL indices are
    re-based to the full list."""
    c = consts + (f'\n MaxCarrier = {carrier}\n MaxCarrierApp = 2' if needs_sem else '')
    if cases is None:
        wd = workdir(name)
        res = run_tlc(module, CFG.format(bs=bs, consts=c), wd, env={}, timeout=timeout)
        tlc_must_be_clean(res, name)
        v.add_tlc(res)
        done = sum(d[2] for d in res.dones)
        pi2v.log(f'[{tag}] {name}: {done} cases, {len(res.fails)} FAIL, {res.wall:.1f}s')
        return res, done
    import json
    lines = [json.dumps(r, separators=(',', ':')) for r in cases]
    chunks, cur, size = [], [], 0
    for ln in lines:
        if cur and size + len(ln) > chunk_bytes:
            chunks.append(cur); cur, size = [], 0
        cur.append(ln); size += len(ln) + 1
    chunks.append(cur)
    agg, off = _Agg(), 0
    for k, ch in enumerate(chunks):
        wd = workdir(name if len(chunks) == 1 else f'{name}-{k}')
        path = os.path.join(wd, 'cases.ndjson')
        with open(path, 'w') as f:
            f.write('\n'.join(ch) + ('\n' if ch else ''))
        res = run_tlc(module, CFG.format(bs=bs, consts=c), wd, env={'CASES': path}, timeout=timeout)
        tlc_must_be_clean(res, name)
        done = sum(d[2] for d in res.dones)
        if done != len(ch):
            raise MachineryError(f'{name}: TLC examined {done} of {len(ch)} recorded cases')
        v.add_tlc(res)
        agg.fails += [[f[0], f[1] + off] + list(f[2:]) for f in res.fails]
        agg.dones += res.dones
        agg.infos += res.infos
        agg.wall += res.wall
        off += len(ch)
        if len(chunks) > 1 and k < len(chunks) - 1:
            os.remove(path)           # keep only the last chunk's case file (selftest reads <name>/cases.ndjson for single-chunk runs)
    v.cov['traces_validated_against_impl'] += len(cases)
    pi2v.log(f'[{tag}] {name}: {len(cases)} cases in {len(chunks)} chunk(s), {len(agg.fails)} FAIL, {agg.wall:.1f}s')
    return agg, len(cases)


class Gen:
    """Seeded random generator of larger terms (beyond the TLC-enumerated universes)."""

    def __init__(self, seed, ids=(0, 1, 2), notation=False):
        self.r = random.Random(seed)
        self.ids = ids
        self.notation = notation

    def idl(self, maxlen=2):
        return [self.r.choice(self.ids) for _ in range(self.r.randrange(maxlen + 1))]

    def metavar(self):
        if self.r.random() < 0.4:
            return pi2v.MV(self.r.choice(self.ids))
        return pi2v.MV(self.r.choice(self.ids), self.idl(), self.idl(), self.idl(1), self.idl(1), [])

    def meta(self, d):
        k = self.r.random()
        if d <= 0 or k < 0.5:
            return self.metavar()
        if k < 0.75:
            return pi2v.ES(self.meta(d - 1), self.r.choice(self.ids), self.term(d - 1))
        return pi2v.SS(self.meta(d - 1), self.r.choice(self.ids), self.term(d - 1))

    def term(self, d):
        k = self.r.random()
        if d <= 0 or k < 0.2:
            c = self.r.randrange(4)
            if c == 0:
                return pi2v.EV(self.r.choice(self.ids))
            if c == 1:
                return pi2v.SV(self.r.choice(self.ids))
            if c == 2:
                return pi2v.SYM(self.r.choice(self.ids))
            return self.metavar()
        if k < 0.4:
            return pi2v.IMP(self.term(d - 1), self.term(d - 1))
        if k < 0.5:
            return pi2v.APP(self.term(d - 1), self.term(d - 1))
        if k < 0.62:
            return pi2v.EX(self.r.choice(self.ids), self.term(d - 1))
        if k < 0.72:
            return pi2v.MU(self.r.choice(self.ids), self.term(d - 1))
        if k < 0.86:
            return self.meta(d)
        if self.notation:
            return self.nterm(d)
        return pi2v.IMP(self.term(d - 1), pi2v.BOT)

    # notation nodes built exactly like the TLA+ definitions in MLUniverse
    def nterm(self, d):
        N = NOT_DEFS
        k = self.r.randrange(5)
        if k == 0:
            return N['neg'](self.term(d - 1))
        if k == 1:
            return N['and'](self.term(d - 1), self.term(d - 1))
        if k == 2:
            return N['or'](self.term(d - 1), self.term(d - 1))
        if k == 3:
            return N['equiv'](self.term(d - 1), self.term(d - 1))
        return N['bot']


def _defs():
    M0, M1 = pi2v.MV(0), pi2v.MV(1)
    botdef = pi2v.MU(0, pi2v.SV(0))
    bot = pi2v.NINST(botdef, [])
    negdef = pi2v.IMP(M0, bot)
    neg = lambda a: pi2v.NINST(negdef, [(0, a)])
    anddef = neg(pi2v.IMP(M0, neg(M1)))
    and_ = lambda a, b: pi2v.NINST(anddef, [(0, a), (1, b)])
    ordef = pi2v.IMP(neg(M0), M1)
    or_ = lambda a, b: pi2v.NINST(ordef, [(0, a), (1, b)])
    eqdef = and_(pi2v.IMP(M0, M1), pi2v.IMP(M1, M0))
    equiv = lambda a, b: pi2v.NINST(eqdef, [(0, a), (1, b)])
    return {'bot': bot, 'neg': neg, 'and': and_, 'or': or_, 'equiv': equiv, 'top': pi2v.NINST(neg(bot), [])}


NOT_DEFS = _defs()
