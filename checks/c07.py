"""C07 - Python proof rules apply exactly when the documented rule applies."""
import random
import pi2v, funcs
from pi2v import py_run, tkey
from c11 import PLUGS, adversarial_deltas, deltas


def run(v, tier):
    quick = tier == 'quick'
    rng = random.Random(pi2v.SEED)
    u = pi2v.universes()
    N = funcs.NOT_DEFS
    v.assumptions += ['raising is always conforming (the property allows it)',
                      'generalisation: "occurs free" is judged on all admissible instances of the expanded consequent',
                      'instantiations that violate a metavariable constraint are judged by C02 (checker rejects), not here']
    pool = u['U1'] + [x['p'] for x in u['NU1']] + rng.sample([x['p'] for x in u['NU2S']], 200)
    gn = funcs.Gen(pi2v.SEED + 7, ids=(0, 1), notation=True)
    pool += [gn.term(3) for _ in range(300 if quick else 10000)]
    imps = [p for p in pool if p['t'] == 'imp'] + [N['or'](a, b) for a in rng.sample(pool, 12) for b in rng.sample(pool, 4)]
    cmds, meta = [], []
    def add(c, m):
        for interp in ('basic', 'stateful'):
            cmds.append(dict(c, interp=interp)); meta.append(dict(m, interp=interp))
    n = 500 if quick else 15000
    for _ in range(n):       # modus ponens: applicable by construction, near misses, non-implications
        l = rng.choice(imps)
        ante = l['l'] if l['t'] == 'imp' else N['neg'](l['d'][0][1])
        k = rng.random()
        if k < 0.45:
            r = ante
        elif k < 0.6:
            r = N['neg'](N['neg'](ante)) if rng.random() < 0.5 else pi2v.IMP(ante, pi2v.BOT)
        elif k < 0.8:
            r = rng.choice(pool)
        else:
            l, r = rng.choice(pool), rng.choice(pool)
        add({'fn': 'modus_ponens', 'l': l, 'r': r}, {'rule': 'mp', 'l': l, 'r': r})
    # modus ponens near misses under notation: the antecedent and the premise are applications of the SAME definition that
    # differ in their key sets / the holes their arguments sit in / one argument (only the same mapping is applicable)
    small = u['U1'][:40]
    for _ in range(150 if quick else 4000):
        a, b, c = rng.choice(small), rng.choice(small), rng.choice(pool)
        dfn = rng.choice([N['and'](a, b)['p'], N['or'](a, b)['p'], N['equiv'](a, b)['p']])
        ante = pi2v.NINST(dfn, [(0, a), (1, b)])
        for r in (pi2v.NINST(dfn, [(1, b), (0, a)]),              # same mapping, other key order: applicable
                  pi2v.NINST(dfn, [(0, a)]), pi2v.NINST(dfn, [(1, b)]), pi2v.NINST(dfn, []),      # partial applications
                  pi2v.NINST(dfn, [(1, a), (0, b)]),              # arguments in the other holes
                  pi2v.NINST(dfn, [(0, a), (1, rng.choice(small))]), pi2v.NINST(dfn, [(0, a), (1, b), (2, c)])):
            l = pi2v.IMP(ante, c)
            add({'fn': 'modus_ponens', 'l': l, 'r': r}, {'rule': 'mp', 'l': l, 'r': r})
            l2 = pi2v.IMP(r, c)                                   # and the other way round
            add({'fn': 'modus_ponens', 'l': l2, 'r': ante}, {'rule': 'mp', 'l': l2, 'r': ante})
    for p in rng.sample(pool + imps, min(len(pool), n)) + imps[:200]:   # generalization
        for x in (0, 1):
            add({'fn': 'exists_generalization', 'p': p, 'x': x}, {'rule': 'gen', 'p': p, 'x': x})
    # consequents that mention the variable only under notation / under pending substitutions
    for a in rng.sample(pool, 150 if quick else 1500):
        for cons in (N['and'](pi2v.EV(1), a), N['and'](a, pi2v.EV(0)), N['neg'](pi2v.EX(0, pi2v.EV(1))), N['or'](a, pi2v.EX(1, pi2v.EV(1))),
                     pi2v.ES(pi2v.MV(0), 0, pi2v.IMP(pi2v.EV(0), a)), pi2v.SS(pi2v.MV(0), 1, pi2v.EV(1))):
            for x in (0, 1):
                p = pi2v.IMP(a, cons)
                add({'fn': 'exists_generalization', 'p': p, 'x': x}, {'rule': 'gen', 'p': p, 'x': x})
    for p in rng.sample(pool, min(len(pool), n)):     # instantiation
        for d in deltas(rng, p, 1) + rng.sample(adversarial_deltas(p), 1):
            add({'fn': 'instantiate_rule', 'p': p, 'd': d}, {'rule': 'inst', 'p': p, 'd': d})
    # premises with a pending substitution on a metavariable, instantiated with notation applications whose DEFINITION binds
    # (or does not mention) the substituted variable while the argument mentions it
    I_, M_ = pi2v.NINST, pi2v.MV
    fx = lambda i: pi2v.APP(pi2v.SYM(0), pi2v.EV(i))
    bind = [lambda a: I_(pi2v.EX(0, M_(0)), [(0, a)]), lambda a: I_(pi2v.EX(1, M_(0)), [(0, a)]), lambda a: I_(pi2v.MU(1, pi2v.IMP(M_(0), pi2v.SV(1))), [(0, a)]),
            lambda a: N['neg'](I_(pi2v.EX(0, M_(0)), [(0, N['neg'](a))])), lambda a: I_(I_(pi2v.EX(0, M_(0)), [(0, M_(0))]), [(0, a)]), lambda a: I_(M_(0), [(0, a)])]
    prem = [pi2v.IMP(pi2v.ES(M_(0), 0, pi2v.EV(1)), pi2v.EX(0, M_(0))), pi2v.IMP(pi2v.ES(M_(0), 1, pi2v.EV(0)), M_(1)), pi2v.ES(M_(0), 0, M_(1)),
            pi2v.IMP(pi2v.SS(M_(0), 1, M_(1)), M_(0)), pi2v.IMP(M_(1), pi2v.ES(pi2v.ES(M_(0), 0, pi2v.EV(1)), 1, pi2v.EV(0)))]
    for p in prem:
        for b in bind:
            for arg in (fx(0), fx(1), pi2v.IMP(pi2v.EV(0), pi2v.SV(1)), pi2v.SV(1)):
                add({'fn': 'instantiate_rule', 'p': p, 'd': [[0, b(arg)]]}, {'rule': 'inst', 'p': p, 'd': [[0, b(arg)]]})
                add({'fn': 'instantiate_rule', 'p': p, 'd': [[1, pi2v.EV(0)], [0, b(arg)]]}, {'rule': 'inst', 'p': p, 'd': [[1, pi2v.EV(0)], [0, b(arg)]]})
    res = py_run(cmds)
    cases = []
    for m, r in zip(meta, res):
        cases.append(dict(m, fam='rule', out='ok' if r['out'] == 'ok' else 'raise', res=r['res'] or pi2v.EV(0)))
    acc = sum(1 for c in cases if c['out'] == 'ok')
    v.cov['rule_calls_accepted'] = acc
    v.cov['rule_calls_raised'] = len(cases) - acc
    v.sample({k: cases[0][k] for k in ('interp', 'rule', 'l', 'r', 'out')})
    res, _ = funcs.run_blocks(v, 'C07', 'Trace_PyOps', 'c07-trace', cases, '', bs=300, needs_sem=True)
    for f in res.fails:
        c = cases[f[1] - 1]
        args = {k: c[k] for k in ('l', 'r', 'p', 'x', 'd') if k in c}
        key = f"{f[2]}:{c['interp']}:{c['rule']}:{tkey(args)}"
        v.fail(key, f"{c['interp']} {c['rule']} {tkey(args)[:500]} returned {tkey(c['res'])[:200]}: clause {f[2]}", {'family': 'pyops', 'case': c})
