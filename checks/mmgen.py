"""Generator of Metamath databases in the fragment the translator supports (the matching-logic dialect of
generation/mm-benchmarks): constants, n-ary constructors with <c>-is-pattern axioms, axioms, rules with essential
hypotheses (in blocks, optionally with $d), proof rules prop-1/prop-2/mp, and lemmas with random forward
derivations written as compressed proofs in several layouts.  Proofs are valid BY CONSTRUCTION but nobody
trusts that: MMVerify (TLC) verifies every generated proof before it is used as an expected-accept case."""
import random

LET = 'ABCDEFGHIJKLMNOPQRSTUVWXYZ'
VARS = ['ph0', 'ph1', 'ph2', 'ph3']


def show(t):
    if isinstance(t, str):
        return t
    if len(t) == 1:
        return t[0]
    return '( ' + ' '.join([t[0]] + [show(x) for x in t[1:]]) + ' )'


def tvars(t):
    if isinstance(t, str):
        return {t}
    s = set()
    for x in t[1:]:
        s |= tvars(x)
    return s


def subst(t, sg):
    if isinstance(t, str):
        return sg.get(t, t)
    return (t[0],) + tuple(subst(x, sg) for x in t[1:])


def enc(n):
    low = (n - 1) % 20 + 1
    h = (n - low) // 20
    ds = []
    while h > 0:
        d = (h - 1) % 5 + 1
        ds.append(LET[20 + d - 1])
        h = (h - d) // 5
    return ''.join(reversed(ds)) + LET[low - 1]


class Gen:
    def __init__(self, rng, nconstr=2, naxioms=3, nrules=1, nested=False, disjoint=False, nsugar=0, nquoted=0):
        self.r = rng
        self.constr = [('\\imp', 2)] + [(f'\\c{i}', rng.choice([0, 1, 2, 1])) for i in range(nconstr)]
        # declared notations: \nK p0 .. := rhs over (a subset of) the parameters and the earlier constructors
        self.sugar = {}
        for i in range(nsugar):
            ar = rng.choice([1, 2, 3])
            ps = VARS[:ar]
            keep = [p for p in ps if rng.random() < 0.75] or [ps[-1]]      # some notations ignore an argument
            self.sugar[f'\\n{i}'] = (ar, self.term(2, keep))
            self.constr.append((f'\\n{i}', ar))
        # quoted string-literal constants in the style of the K-generated benchmarks (transfer-goal.mm):
        #   string-literal-k-is-symbol $a #Symbol "sk"-symbol $.   string-literal-k-is-pattern $a #Pattern "sk" $.
        #   string-literal-k-is-sugar $a #Notation "sk" "sk"-symbol $.
        self.quoted = [f'"s{i}"' for i in range(nquoted)]
        self.constr += [(q, 0) for q in self.quoted]
        self.nested, self.disjoint = nested, disjoint
        self.assertions = {}      # label -> (vars in db order, [hyp terms], concl term)
        self.dv = {}              # label -> list of disjoint pairs (chosen when the text is produced)
        self.global_d = disjoint and rng.random() < 0.85
        self.order = []           # labels in database order
        # the proof rules may be stated over other variables than the first ones, and an unused variable may be declared first
        # (the checker's schemas are over phi0, phi1, phi2: the translator must not identify them with the database's numbering)
        self.extra_var = rng.random() < 0.25
        a_, b_, c_ = ('ph1', 'ph2', 'ph3') if rng.random() < 0.25 else ('ph0', 'ph1', 'ph2')
        self.add('proof-rule-prop-1', [], ('\\imp', a_, ('\\imp', b_, a_)))
        self.add('proof-rule-prop-2', [], ('\\imp', ('\\imp', a_, ('\\imp', b_, c_)), ('\\imp', ('\\imp', a_, b_), ('\\imp', a_, c_))))
        self.add('proof-rule-mp', [('\\imp', 'ph0', 'ph1'), 'ph0'], 'ph1')
        for i in range(naxioms):
            self.add(f'ax-{i}', [], self.term(2, VARS[:rng.choice([1, 2, 3])]))
        if disjoint:
            for label in self.order:
                vs = self.assertions[label][0]
                if not label.startswith('proof-rule') and len(vs) >= 2 and rng.random() < 0.5:
                    self.dv[label] = [(vs[0], vs[1])]
        for i in range(nrules):
            vs = VARS[:rng.choice([2, 3])]
            self.add(f'rule-{i}', [self.term(1, vs) for _ in range(rng.choice([1, 2]))], self.term(2, vs))
        for label in self.order:
            self.add_inherited_dv(label)

    def add(self, label, hyps, concl):
        used = set().union(tvars(concl), *[tvars(h) for h in hyps]) & set(VARS)
        self.assertions[label] = ([v for v in VARS if v in used], list(hyps), concl)
        self.order.append(label)

    def term(self, d, vs):
        if d == 0 or self.r.random() < 0.3:
            zero = [c for c, a in self.constr if a == 0]
            return self.r.choice(list(vs) + [(z,) for z in zero])
        c, a = self.r.choice(self.constr)
        return (c,) + tuple(self.term(d - 1, vs) for _ in range(a))

    # ---- proofs as trees: ('hyp', var) | (label, [subproofs])
    def wff(self, t):
        if isinstance(t, str):
            return (f'{t}-is-pattern', [])
        if t[0] in self.quoted:
            return (f'string-literal-{self.quoted.index(t[0])}-is-pattern', [])
        name = t[0][1:] + '-is-pattern'
        return (name, [self.wff(x) for x in t[1:]])

    def apply(self, label, sg, hyp_proofs):
        vs, hyps, concl = self.assertions[label]
        return (label, [self.wff(sg[v]) for v in vs] + list(hyp_proofs)), subst(concl, sg)

    def derive(self, steps, init=()):
        """random forward derivation: list of (term, proof tree) facts (init: facts given, e.g. the hypotheses of a theorem)"""
        facts = list(init)
        r = self.r
        for _ in range(steps):
            kind = r.random()
            label = r.choice([l for l in self.order])
            vs, hyps, concl = self.assertions[label]
            if not hyps:
                if self.dv.get(label):      # respect $d: give every variable its own variable (or a ground term)
                    pool = [[x] for x in VARS[:3]]
                    self.r.shuffle(pool)
                    sg = {v: self.term(1, pool[i % 3]) for i, v in enumerate(vs)}
                else:
                    sg = {v: self.term(1, VARS[:3]) for v in vs}
                facts.append(tuple(reversed(self.apply(label, sg, []))))
            elif label == 'proof-rule-mp':
                imps = [(t, p) for t, p in facts if not isinstance(t, str) and t[0] == '\\imp']
                r.shuffle(imps)
                for t, p in imps:
                    ants = [(t2, p2) for t2, p2 in facts if t2 == t[1]]
                    if ants:
                        t2, p2 = r.choice(ants)
                        pf, c = self.apply(label, {'ph0': t[1], 'ph1': t[2]}, [p, p2])
                        facts.append((c, pf))
                        break
            else:
                # rule with hypotheses: try to match the first hypothesis against a fact (one-way matching)
                for t, p in r.sample(facts, len(facts)):
                    sg = match(hyps[0], t, {})
                    if sg is None:
                        continue
                    for v in vs:
                        sg.setdefault(v, self.term(1, VARS[:2]))
                    rest = []
                    ok = True
                    for h in hyps[1:]:
                        want = subst(h, sg)
                        got = [(t2, p2) for t2, p2 in facts if t2 == want]
                        if not got:
                            ok = False
                            break
                        rest.append(got[0][1])
                    if ok:
                        pf, c = self.apply(label, sg, [p] + rest)
                        facts.append((c, pf))
                        break
        return facts

    # ---- text
    def preamble(self):
        consts = ['#Pattern', '|-', '(', ')'] + [c for c, _ in self.constr] + (['#Notation'] if self.sugar or self.quoted else []) + \
                 (['#Symbol'] + [q + '-symbol' for q in self.quoted] if self.quoted else [])
        out = ['$c ' + ' '.join(consts) + ' $.', '$v ' + ' '.join((['th0'] if self.extra_var else []) + VARS) + ' $.']
        if self.extra_var:
            out.append('th0-is-pattern $f #Pattern th0 $.')
        out += [f'{v}-is-pattern $f #Pattern {v} $.' for v in VARS]
        for k, q in enumerate(self.quoted):
            out += [f'string-literal-{k}-is-symbol $a #Symbol {q}-symbol $.', f'string-literal-{k}-is-pattern $a #Pattern {q} $.',
                    f'string-literal-{k}-is-sugar $a #Notation {q} {q}-symbol $.']
        for c, a in self.constr:
            if c in self.quoted:
                continue
            out.append(f'{c[1:]}-is-pattern $a #Pattern ' + show((c,) + tuple(VARS[:a])) + ' $.')
            if c in self.sugar:
                out.append(f'{c[1:]}-is-sugar $a #Notation ' + show((c,) + tuple(VARS[:a])) + ' ' + show(self.sugar[c][1]) + ' $.')
        return out

    def global_d_lines(self):
        """growing top-level disjointness lists; they are placed AFTER the syntax axioms and the proof rules (a top-level $d
        restricts every later assertion that mentions both variables - the constructors must stay unrestricted)"""
        return ['$d ph0 ph1 $.', '$d ph2 ph3 $.', '$d ph0 ph1 ph2 ph3 $.'] if self.global_d else []

    def add_inherited_dv(self, label):
        if self.global_d and not label.startswith('proof-rule'):
            vs = self.assertions[label][0]
            self.dv[label] = sorted(set(self.dv.get(label, [])) | {(a, b) for i, a in enumerate(vs) for b in vs[i + 1:]})

    def assertion_text(self, label, kw='$a', proof=None):
        vs, hyps, concl = self.assertions[label]
        tail = f' $= {proof} $.' if proof is not None else ' $.'
        dvl = [f'   $d {a} {b} $.' for a, b in self.dv.get(label, [])]
        if self.disjoint and self.r.random() < (0.6 if kw == '$p' else 0.35):      # a dummy variable: occurs only in the $d
            dummy = [x for x in VARS if x not in vs]
            if dummy and vs:
                dvl.append(f'   $d {vs[0]} {dummy[-1]} $.')
        if not hyps and not dvl:
            return f'{label} {kw} |- {show(concl)}{tail}'
        if len(hyps) >= 2 and self.nested and self.r.random() < 0.6:
            # essential hypotheses at two nesting levels around the assertion
            lines = ['${', f'   {label}.0 $e |- {show(hyps[0])} $.', '   ${'] + ['   ' + d for d in dvl]
            for i, h in enumerate(hyps[1:], 1):
                lines.append(f'      {label}.{i} $e |- {show(h)} $.')
            lines += [f'      {label} {kw} |- {show(concl)}{tail}', '   $}', '$}']
            return '\n'.join(lines)
        lines = ['${'] + dvl
        for i, h in enumerate(hyps):
            lines.append(f'   {label}.{i} $e |- {show(h)} $.')
        lines.append(f'   {label} {kw} |- {show(concl)}{tail}')
        lines.append('$}')
        if self.nested and self.r.random() < 0.5:
            lines = ['${'] + ['   ' + l for l in lines] + ['$}']
        return '\n'.join(lines)


def match(pat, t, sg):
    if isinstance(pat, str):
        if pat in VARS:
            if pat in sg:
                return sg if sg[pat] == t else None
            sg = dict(sg); sg[pat] = t
            return sg
        return sg if pat == t else None
    if isinstance(t, str) or t[0] != pat[0] or len(t) != len(pat):
        return None
    for a, b in zip(pat[1:], t[1:]):
        sg = match(a, b, sg)
        if sg is None:
            return None
    return sg


def compress(tree, mand_labels, zmode, rng):
    """proof tree -> '( labels ) LETTERS' ; zmode: 'none' | 'all' (every reused step) | 'random' | 'dup' | 'every' (every
    compound step, reused or not: slot numbers grow far beyond the label count)"""
    listed, steps, saved = [], [], {}
    counts = {}

    def count(t):
        k = repr(t)
        counts[k] = counts.get(k, 0) + 1
        for c in t[1]:
            count(c)
    count(tree)

    def num(label):
        if label in mand_labels:
            return mand_labels.index(label) + 1
        if label not in listed:
            listed.append(label)
        return len(mand_labels) + listed.index(label) + 1
    # two passes: the label list must be complete before saved-step numbers are known -> collect symbolic steps first
    sym = []

    nsaved = [0]

    def emit(t):
        k = repr(t)
        if k in saved and not (zmode == 'dup' and t[1] and rng.random() < 0.5):
            sym.append(('ref', saved[k]))
            return
        for c in t[1]:
            emit(c)
        sym.append(('lab', t[0]))
        num(t[0])
        if t[1] and (zmode == 'every' or counts[k] > 1 and (zmode in ('all', 'dup') or (zmode == 'random' and rng.random() < 0.5))):
            sym.append(('Z', None))          # 'dup': the same expression may be marked a second time (a new slot)
            nsaved[0] += 1
            saved[k] = nsaved[0]
    emit(tree)
    out = []
    for k, x in sym:
        if k == 'lab':
            out.append(enc(num(x)))
        elif k == 'Z':
            out.append('Z')
        else:
            out.append(enc(len(mand_labels) + len(listed) + x))
    return listed, ''.join(out)


def tree_size(t):
    return 1 + sum(tree_size(c) for c in t[1])


def proof_vars(pf):
    """variables whose floating hypothesis is used somewhere in the proof tree"""
    out = {pf[0][:-len('-is-pattern')]} if pf[0].endswith('-is-pattern') and pf[0][:-len('-is-pattern')] in VARS else set()
    for c in pf[1]:
        out |= proof_vars(c)
    return out


def uses_dv(pf, g):
    return bool(g.dv.get(pf[0])) or any(uses_dv(c, g) for c in pf[1])


def retoken(text, ren):
    """token-wise renaming of a database text"""
    return '\n'.join(' '.join(ren.get(tok, tok) for tok in line.split(' ')) for line in text.split('\n'))


# declaration order th1, ps0, ph2, ph3: not the alphabetical order of the names
RENAME_VARS = {'ph0': 'th1', 'ph0-is-pattern': 'th1-is-pattern', 'ph1': 'ps0', 'ph1-is-pattern': 'ps0-is-pattern'}


def uses_label(pf, labels):
    return pf[0] in labels or any(uses_label(c, labels) for c in pf[1])


def database(rng, nlemmas=2, zmode='random', deep=False, lemma_hyps=False, **kw):
    """returns (text, [lemma labels]); lemma_hyps: some theorems have essential hypotheses of their own"""
    g = Gen(rng, **kw)
    lines = g.preamble()
    for label in g.order:
        lines.append(g.assertion_text(label))
        if label == 'proof-rule-mp':
            lines += g.global_d_lines()
    lemmas = []
    facts = g.derive(rng.randrange(6, 14) if not deep else rng.randrange(14, 30) if deep is True else rng.randrange(*deep))
    facts = [f for f in facts if len(tvars(f[0]) & set(VARS)) <= 3]
    rng.shuffle(facts)
    if deep:
        facts.sort(key=lambda f: -tree_size(f[1]))
    if g.disjoint and rng.random() < 0.7:
        # prefer theorems whose proof applies a $d-restricted assertion to a DUMMY variable (one that does not occur in
        # the statement): the disjointness such a proof needs mentions a variable the statement does not
        facts.sort(key=lambda f: -int(uses_dv(f[1], g) and bool(proof_vars(f[1]) - tvars(f[0]))))
    for i, (t, pf) in enumerate(facts[:nlemmas]):
        label = f'lemma-{i}' if i < nlemmas - 1 and i < len(facts[:nlemmas]) - 1 else 'goal'
        hyps = []
        if lemma_hyps and not g.global_d and rng.random() < 0.5:
            # a theorem with essential hypotheses: derive from them, keep a consequence whose proof uses one
            hyps = [g.term(1, VARS[:3]) for _ in range(rng.choice([1, 2, 2]))]
            hl = [f'{label}.{j}' for j in range(len(hyps))]
            cons = [f for f in g.derive(8, init=[(h, (hl[j], [])) for j, h in enumerate(hyps)]) if uses_label(f[1], set(hl))]
            t, pf = max(cons, key=lambda f: tree_size(f[1]))
        hv = set().union(*[tvars(h) for h in hyps]) if hyps else set()
        mand = [f'{v}-is-pattern' for v in VARS if v in (tvars(t) | hv)] + [f'{label}.{j}' for j in range(len(hyps))]
        listed, letters = compress(pf, mand, zmode, rng)
        # break the letter string over lines like metamath.exe does
        proof = '( ' + ' '.join(listed) + (' ' if listed else '') + ') ' + ' '.join(letters[j:j + 30] for j in range(0, max(len(letters), 1), 30))
        g.add(label, hyps, t)
        g.add_inherited_dv(label)
        lines.append(g.assertion_text(label, '$p', proof))
        lemmas.append(label)
        # later lemmas may use earlier ones: extend the pool
        facts2 = g.derive(3)
        facts += facts2
    return '\n'.join(lines) + '\n', lemmas


def dummy_database(rng, zmode='none'):
    """a theorem whose proof needs a disjointness that mentions DUMMY variables (variables of the proof that do not occur in
    the statement): ax-d carries $d x y, ax-e eliminates x and y, goal is |- z; the $d lists are top-level"""
    g = Gen(rng, nconstr=rng.choice([1, 2]), naxioms=rng.choice([1, 2]), nrules=0, nested=rng.random() < 0.5, disjoint=True)
    g.global_d = True
    x, y, z = rng.sample(VARS[:3], 3)
    c = rng.choice([c for c, a in g.constr if a == 2] or ['\\imp'])
    body = (c, x, ('\\imp', y, x))
    g.add('ax-d', [], body); g.dv['ax-d'] = [(x, y)]
    g.add('ax-e', [], ('\\imp', body, z))
    lines = g.preamble()
    for l in g.order:
        lines.append(g.assertion_text(l))
        if l == 'proof-rule-mp':
            lines += g.global_d_lines()
    sg = {x: x, y: y, z: rng.choice([z, ('\\imp', z, z)])}
    pf_d, c_d = g.apply('ax-d', sg, [])
    pf_e, c_e = g.apply('ax-e', sg, [])
    pf, concl = g.apply('proof-rule-mp', {'ph0': c_d, 'ph1': c_e[2]}, [pf_e, pf_d])
    mand = [f'{v}-is-pattern' for v in VARS if v in tvars(concl)]
    listed, letters = compress(pf, mand, zmode, rng)
    proof = '( ' + ' '.join(listed) + (' ' if listed else '') + ') ' + letters
    g.add('goal', [], concl)
    g.disjoint = False        # no extra local $d on the theorem: it relies on the top-level lists
    lines.append(g.assertion_text('goal', '$p', proof))
    return '\n'.join(lines) + '\n', ['goal']


def big_instance_database(rng, zmode='every', depth=7):
    """one application of proof-rule-prop-1 to LARGE terms: with zmode 'every' the reuse slots are numbered far beyond 140
    and the second argument refers back to subterms the first one built last"""
    g = Gen(rng, nconstr=rng.choice([2, 3]), naxioms=1, nrules=0)
    bins = [c for c, a in g.constr if a == 2]

    def big(d):
        if d == 0:
            return rng.choice(VARS[:3] + [(c,) for c, a in g.constr if a == 0][:1])
        return (rng.choice(bins), big(d - 1), big(d - 1))
    T = big(depth)
    last = T
    for _ in range(rng.randrange(1, depth - 1)):
        last = last[2]
    T2 = ('\\imp', last, (rng.choice(bins), last[1] if not isinstance(last, str) else last, last))
    vs, _, _ = g.assertions['proof-rule-prop-1']
    pf, concl = g.apply('proof-rule-prop-1', {vs[0]: T, vs[1]: T2}, [])
    lines = g.preamble() + [g.assertion_text(l) for l in g.order]
    mand = [f'{v}-is-pattern' for v in VARS if v in tvars(concl)]
    listed, letters = compress(pf, mand, zmode, rng)
    proof = '( ' + ' '.join(listed) + (' ' if listed else '') + ') ' + ' '.join(letters[j:j + 60] for j in range(0, len(letters), 60))
    g.add('goal', [], concl)
    lines.append(g.assertion_text('goal', '$p', proof))
    return '\n'.join(lines) + '\n', ['goal']


def nested_constant_database(rng, zmode='none'):
    """a constant that occurs ONLY inside doubly nested axiom blocks the proof cites (never in a substituted term, so its
    syntax axiom is not cited): the slice must still declare it"""
    g = Gen(rng, nconstr=rng.choice([1, 2]), naxioms=1, nrules=0)
    g.constr.append(('\\cu', 0))
    body = ('\\imp', ('\\cu',), 'ph0')
    g.add('ax-v', [], body)
    g.add('rule-u', [body], 'ph0')
    lines = g.preamble() + [g.assertion_text(l) for l in g.order if l not in ('ax-v', 'rule-u')]
    lines += ['${', '   ${', '      $d ph0 ph3 $.', f'      ax-v $a |- {show(body)} $.', '   $}', '$}',
              '${', '   ${', f'      rule-u.0 $e |- {show(body)} $.', '      rule-u $a |- ph0 $.', '   $}', '$}']
    T = g.term(2, VARS[1:3])
    pf_v, _ = g.apply('ax-v', {'ph0': T}, [])
    pf, concl = g.apply('rule-u', {'ph0': T}, [pf_v])
    mand = [f'{v}-is-pattern' for v in VARS if v in tvars(concl)]
    listed, letters = compress(pf, mand, zmode, rng)
    g.add('goal', [], concl)
    lines.append(g.assertion_text('goal', '$p', '( ' + ' '.join(listed) + (' ' if listed else '') + ') ' + letters))
    return '\n'.join(lines) + '\n', ['goal']
