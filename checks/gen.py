"""Shared by C02/C03/C04: obtain traces of the real SerializingInterpreter (TLC-generated call
sequences, whole modules) and validate them with Trace_Gen."""
import json, os
import pi2v
from pi2v import run_tlc, tlc_must_be_clean, workdir, write_ndjson, MachineryError, py_run, rust_run

GEN_CFG = """SPECIFICATION Spec
CONSTANTS
 MaxStack = {maxstack}
 MaxSize = {maxsize}
 MaxDepth = {depth}
 DoExport = {export}
 ExportAtLevel = {atlevel}
CONSTRAINT Bounded
{ac}
VIEW View
CHECK_DEADLOCK FALSE
"""


def explore(v, tag, name, depth, export=True, maxstack=3, maxsize=5, simulate=None):
    """BFS (default) or, with simulate=(num, seed), TLC random simulation of deep behaviours of MC_Gen"""
    wd = workdir(name)
    res = run_tlc('MC_Gen', GEN_CFG.format(maxstack=maxstack, maxsize=maxsize, depth=depth, export='TRUE' if export else 'FALSE', atlevel=(depth - 1 if simulate else 0),
                                           ac='ACTION_CONSTRAINT Export' if export else ''), wd,
                  extra=(['-simulate', f'num={simulate[0] * 4}', '-depth', str(depth), '-seed', str(simulate[1])] if simulate else None),
                  workers=1)        # one worker: the explored set and the witness histories are then reproducible
    if not simulate:
        tlc_must_be_clean(res, name)
    elif res.error and 'Simulation' not in res.out:
        raise MachineryError(f'TLC simulation failed on {name}: {res.error}')
    v.add_tlc(res)
    seqs = []
    for line in res.out.splitlines():
        line = line.strip()
        if line.startswith('"SEQ '):
            seqs.append(json.loads(json.loads(line)[4:]))
    if simulate:       # keep only maximal behaviours (every transition printed its whole history)
        keys = {json.dumps(s_['calls'], sort_keys=True) for s_ in seqs}
        def is_prefix_of_other(s_):
            k = json.dumps(s_['calls'], sort_keys=True)[:-1] + ','
            return any(o.startswith(k) for o in keys)
        uniq = {}
        for s_ in seqs:
            uniq[json.dumps([s_['phase'], s_['calls']], sort_keys=True)] = s_
        seqs = list(uniq.values())
        if len(seqs) > simulate[0] * 3:
            import random
            seqs = random.Random(simulate[1]).sample(seqs, simulate[0] * 3)
    pi2v.log(f'[{tag}] {name}: {res.distinct} states, {res.generated} transitions, {len(seqs)} call sequences exported, '
             f'{sum(1 for s in seqs if not s["good"])} predicted to break Rel, {res.wall:.1f}s')
    return seqs


CLAIMS0 = None


def model_claims():
    """ClaimA / ClaimB of MC_Gen (the declared claims of every TLC-generated sequence)."""
    M = pi2v.MV
    bot = pi2v.NINST(pi2v.MU(0, pi2v.SV(0)), [])
    return [pi2v.IMP(M(0), pi2v.IMP(M(1), M(0))), pi2v.IMP(pi2v.IMP(pi2v.IMP(M(0), bot), bot), M(0))]


def replay_sequences(seqs):
    reqs = [{'cmd': 'replay', 'phase': s['phase'], 'claims': model_claims(), 'calls': s['calls']} for s in seqs]
    res = py_run(reqs, script='genharness.py')
    traces = []
    for k, (s, r) in enumerate(zip(seqs, res)):
        traces.append({'id': k, 'phase': s['phase'], 'claims': model_claims(), 'events': r['events'],
                       'final': {'module': False, 'axioms': [], 'claims': [], 'rust': 'none'}, 'calls': s['calls'],
                       'predicted_good': s['good']})
    return traces


def module_traces(names, optimize_opts=(False, True)):
    reqs = [{'cmd': 'module', 'name': n, 'optimize': o} for n in names for o in optimize_opts]
    res = py_run(reqs, script='genharness.py')
    traces = []
    vcmds = []
    for k, (q, r) in enumerate(zip(reqs, res)):
        g, c, p = r['files']
        vcmds.append('verify ' + ' '.join(str(len(x)) + ' ' + ' '.join(map(str, x)) for x in (g, c, p)))
    rv = rust_run(vcmds)
    for k, (q, r, rr) in enumerate(zip(reqs, res, rv)):
        fin = r['final']
        fin['rust'] = rr['out']
        traces.append({'id': k, 'phase': 'gamma', 'claims': [], 'events': r['events'], 'final': fin,
                       'name': q['name'], 'optimize': q['optimize'], 'error': r['error'], 'files': r['files']})
    return traces


def decl_of(spec):
    """the declaration structure of a recipe module (imports / own axioms), handed to TLC which computes the declared theory"""
    return {'imports': [decl_of(m) for m in spec.get('imports', [])], 'axioms': list(spec.get('axioms', [])), 'raw': bool(spec.get('raw_axioms', False))}


def validate(v, tag, name, traces, timeout=3000):
    """Trace_Gen over recorded traces, in chunks of bounded size (TLC's JSON reader is slow on very large files)."""
    for t in traces:
        t['final'].setdefault('hasdecl', False)
        t['final'].setdefault('decl', {'imports': [], 'axioms': [], 'raw': False})
    EK = ('m', 'out', 'bytes', 'phase', 'len', 'top', 'mem', 'memlen', 'cc', 'claims', 'syms')
    lines = [json.dumps({'phase': t['phase'], 'claims': t['claims'], 'final': t['final'],
                         'events': [{k: e[k] for k in EK} for e in t['events']]}, separators=(',', ':')) for t in traces]
    chunks, cur, size = [], [], 0
    for i, l in enumerate(lines):
        if cur and size + len(l) > 50_000_000:
            chunks.append(cur); cur, size = [], 0
        cur.append(i); size += len(l)
    if cur:
        chunks.append(cur)
    fails, nev = [], sum(len(t['events']) for t in traces)
    total_mb = sum(len(l) for l in lines) >> 20
    wall = 0.0
    for ci, idx in enumerate(chunks):
        wd = workdir(name if len(chunks) == 1 else f'{name}-{ci}')
        path = os.path.join(wd, 'traces.ndjson')
        with open(path, 'w') as f:
            for i in idx:
                f.write(lines[i] + '\n')
        res = run_tlc('Trace_Gen', 'SPECIFICATION Spec\nCHECK_DEADLOCK FALSE\n', wd, env={'CASES': path}, timeout=timeout)
        tlc_must_be_clean(res, name)
        if len(res.dones) != len(idx):
            raise MachineryError(f'{name}: TLC finished {len(res.dones)} of {len(idx)} traces')
        v.add_tlc(res)
        wall += res.wall
        fails += [(idx[f[1] - 1] + 1, f[2], f[3] + ('/' + f[4] if f[4] != '-' else '')) for f in res.fails]       # (tid, line, clause/reason)
    v.cov['traces_validated_against_impl'] += len(traces)
    v.cov['trace_events_validated'] = v.cov.get('trace_events_validated', 0) + nev
    pi2v.log(f'[{tag}] {name}: {len(traces)} traces / {nev} events ({total_mb} MB in {len(chunks)} chunk(s)) validated, {len(fails)} FAIL, {wall:.1f}s')
    return fails
