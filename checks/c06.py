"""C06 - freshness / positivity judgements are sound for every instantiation."""
import itertools
import pi2v, funcs
from pi2v import prefix, rust_run, py_run, tkey

FNS = ('e_fresh', 's_fresh', 'positive', 'negative')


def rust_cases(terms, ids):
    cmds, meta = [], []
    for p in terms:
        for fn in FNS:
            for x in ids:
                cmds.append(f'fn {fn} {x} {prefix(p)}')
                meta.append((fn, x, p))
    res = rust_run(cmds)
    return [{'impl': 'rust', 'fn': fn, 'x': x, 'p': p, 'e': p, 'out': 'ok' if r['out'] == 'ok' else 'panic',
             'res': bool(r.get('res')), 'oute': 'ok' if r['out'] == 'ok' else 'panic', 'rese': bool(r.get('res'))}
            for (fn, x, p), r in zip(meta, res)]


def py_cases(pairs, ids):
    """pairs: list of {p, e}: pattern (maybe with notation) and its expansion (supplied by TLC)."""
    cmds, meta = [], []
    for pe in pairs:
        for x in ids:
            cmds.append({'fn': 'evar_is_free', 'p': pe['p'], 'x': x})
            cmds.append({'fn': 'evar_is_free', 'p': pe['e'], 'x': x})
            meta.append((x, pe))
    res = py_run(cmds)
    out = []
    for k, (x, pe) in enumerate(meta):
        a, b = res[2 * k], res[2 * k + 1]
        out.append({'impl': 'py', 'fn': 'e_fresh', 'x': x, 'p': pe['p'], 'e': pe['e'], 'out': a['out'][:5].rstrip(':'),
                    'res': bool(a['res']), 'oute': b['out'][:5].rstrip(':'), 'rese': bool(b['res'])})
    return out


def report(v, res, cases, clauses, prop_note=''):
    for f in res.fails:
        c = cases[f[1] - 1]
        if f[2] not in clauses:
            continue
        key = f"{f[2]}:{c['impl']}:{c['fn']}:{c['x']}:{tkey(c['p'])}"
        v.fail(key, f"{c['impl']} {c['fn']}({c['x']}) on {tkey(c['p'])[:300]} -> {c['res']} / on expansion -> {c['rese']}: clause {f[2]}",
               {'family': 'judge', 'case': c})


def run(v, tier):
    quick = tier == 'quick'
    u = pi2v.universes()
    v.assumptions += ['instances range over Trace_Judge!JudgeU (10 concrete witnesses of every freshness/polarity shape)',
                      'app_ctx_holes constraints are not interpreted (no implemented rule uses them)']
    # (A) the document's rules are sound on the closed universe U2S (theorem of the spec)
    res, n = funcs.run_blocks(v, 'C06', 'Trace_Judge', 'c06-spec', None, ' Mode = "spec"', bs=50, needs_sem=True)
    if res.fails:
        raise pi2v.MachineryError(f'the documented judgement rules are unsound on the universe: {res.fails[:3]}')
    v.cov['spec_theorem_cases'] = n
    # (B)/(C) Rust judgement functions on TLC's universe + seeded random deeper meta-patterns
    g = funcs.Gen(pi2v.SEED, ids=(0, 1))
    terms = u['U2S'] + u['U1'] + [g.term(4) for _ in range(1500 if quick else 20000)]
    terms = [t for t in terms if len(set_mvs(t)) <= 2]
    cases = rust_cases(terms, (0, 1))
    v.sample({k: cases[len(cases) // 2][k] for k in ('impl', 'fn', 'x', 'p', 'res')})
    res, _ = funcs.run_blocks(v, 'C06', 'Trace_Judge', 'c06-rust', cases, ' Mode = "trace"', bs=400, needs_sem=True)
    report(v, res, cases, ('unsound', 'raised'))
    # Python evar_is_free on notation universe (pattern vs expansion) and on the meta universe
    g = funcs.Gen(pi2v.SEED + 1, ids=(0, 1))
    pairs = u['NU1'] + u['NU2S'] + [{'p': t, 'e': t} for t in u['U2S']] + \
        [{'p': t, 'e': t} for t in (g.term(4) for _ in range(1000 if quick else 10000)) if len(set_mvs(t)) <= 2]
    cases = py_cases(pairs, (0, 1))
    v.sample({k: cases[7][k] for k in ('impl', 'fn', 'x', 'p', 'res', 'rese')})
    res, _ = funcs.run_blocks(v, 'C06', 'Trace_Judge', 'c06-py', cases, ' Mode = "trace"', bs=200, needs_sem=True)
    report(v, res, cases, ('unsound', 'raised', 'notation'))


def set_mvs(t):
    k = t['t']
    if k == 'mv':
        return {t['i']}
    if k in ('imp', 'app'):
        return set_mvs(t['l']) | set_mvs(t['r'])
    if k in ('ex', 'mu'):
        return set_mvs(t['p'])
    if k in ('es', 'ss'):
        return set_mvs(t['p']) | set_mvs(t['g'])
    if k == 'inst':
        s = set_mvs(t['p'])
        for _, x in t['d']:
            s |= set_mvs(x)
        return s
    return set()
