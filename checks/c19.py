"""C19 - pretty-printed notation shows the arguments it depends on; pretty steps correspond to binary instructions."""
import itertools, random
import pi2v, funcs, lem, exprs
from pi2v import py_run, tkey


def run(v, tier):
    quick = tier == 'quick'
    rng = random.Random(pi2v.SEED)
    v.assumptions += ['format strings are split into holes by string.Formatter().parse and .pretty-* files into keyword lines by the harness (trusted tokenisers)',
                      'argument tuples are chosen with pairwise distinct renderings']
    N = funcs.NOT_DEFS
    pool = [pi2v.EV(0), pi2v.EV(1), pi2v.SV(0), pi2v.SYM(4), pi2v.SYM(5), pi2v.MV(0), pi2v.MV(1), pi2v.MV(2), pi2v.MV(3), N['bot'], N['neg'](pi2v.EV(2)),
            pi2v.IMP(pi2v.EV(0), pi2v.SV(1)), pi2v.EX(0, pi2v.EV(0))]
    nots = py_run([{'fn': 'notations'}])[0]['res']
    reqs = []
    for label, ar in nots:
        tuples = [list(t) for t in itertools.product(pool[:6], repeat=ar)] if ar <= 2 else [[rng.choice(pool) for _ in range(ar)] for _ in range(40)]
        if len(tuples) > 40:
            tuples = rng.sample(tuples, 40)
        # tuples differing in exactly one position (the interesting ones for injectivity)
        base = [rng.choice(pool) for _ in range(ar)]
        for k in range(ar):
            for a in pool[:5]:
                t = list(base); t[k] = a; tuples.append(t)
        if ar >= 2:       # every transposition of some tuples (an application printed with its arguments in the wrong holes collides with these)
            for t in rng.sample(tuples, min(len(tuples), 12)):
                for i in range(ar):
                    for j in range(i + 1, ar):
                        w = list(t); w[i], w[j] = w[j], w[i]; tuples.append(w)
        reqs.append({'cmd': 'render', 'label': label, 'argtuples': tuples})
    # self-nesting: N(.., N(a, b), c) against N(.., a, N(b, c)) - an unbracketed template prints both alike
    for r in reqs:
        r['selfnest'] = [pi2v.SYM(4), pi2v.SYM(5), pi2v.EV(1)]
    res = py_run(reqs, script='genharness.py')
    cases = [dict(r, fam='notation') for r in res]
    v.cov['notations'] = len(cases)
    v.sample({'label': cases[3]['label'], 'format': cases[3]['format'], 'holes': cases[3]['holes'], 'example': cases[3]['apps'][0]})
    # pretty / binary correspondence: shipped modules and recipe modules, both optimise settings
    mods = [{'name': n} for n in (['propositional', 'substitution', 'small_theory'] + ([] if quick else ['kore_lemmas', 'definedness', 'tautology']))]
    mods += [{'module': m} for m in exprs.edge_modules(rng, 4 if quick else 250) + exprs.graph_modules(rng)]
    import mmgen
    for k in range(6 if quick else 200):      # translated Metamath databases (the translator saves / pops / loads around every modus ponens)
        text, _ = mmgen.database(random.Random(rng.random()), nlemmas=1, zmode=rng.choice(['none', 'all', 'dup']), deep=True)
        mods.append({'mmtext': text})
    preqs = [dict(m, cmd='prettybin', optimize=o) for m in mods for o in (False, True)]
    pres = lem.run_applications(preqs)
    nb = 0
    for q, r in zip(preqs, pres):
        if not r.get('built'):
            nb += 1
            continue
        for ph in r['phases']:
            cases.append({'fam': 'prettybin', 'module': q.get('name') or q.get('module') or q.get('mmtext', '')[-300:], 'optimize': q['optimize'], 'phase': ph['phase'], 'bytes': ph['bytes'], 'steps': ph['steps'],
                          'pretty_ok': r.get('pretty_ok', True)})
    v.cov['module_serialisations_compared'] = len(preqs) - nb
    v.cov['modules_not_serialisable'] = nb
    res, _ = funcs.run_blocks(v, 'C19', 'Trace_Render', 'c19-trace', cases, '', bs=4)
    for f in res.fails:
        c = cases[f[1] - 1]
        if c['fam'] == 'notation':
            v.fail(f"{f[2]}:notation:{c['label']}", f"notation {c['label']} (format {c['format']!r}, holes {c['holes']}): clause {f[2]}", {'family': 'render', 'case': {'label': c['label'], 'format': c['format']}})
        else:
            v.fail(f"{f[2]}:prettybin:{tkey(c['module'])}:{c['optimize']}:{c['phase']}", f"module {tkey(c['module'])[:200]} optimize={c['optimize']} phase {c['phase']}: clause {f[2]}",
                   {'family': 'prettybin', 'case': {'module': c['module'], 'optimize': c['optimize'], 'phase': c['phase']}})
