"""C13 - matching is sound and complete; notation deconstruction round-trips."""
import itertools, random
import pi2v, funcs
from pi2v import py_run, tkey
from c11 import PLUGS, adversarial_deltas


def subst_free(t):
    k = t['t']
    if k in ('es', 'ss'):
        return False
    return all(subst_free(t[f]) for f in ('l', 'r', 'p') if f in t and isinstance(t[f], dict)) and \
        all(subst_free(x) for _, x in t.get('d', []))


def same_notation_eqlists(rng, vals, n):
    """both sides apply the SAME notation definition: partial applications (an open metavariable of the definition is
    matched like any other), arguments the definition ignores, arguments in other holes, with and without seeds"""
    N, M = funcs.NOT_DEFS, pi2v.MV
    out = []
    for _ in range(n):
        a, b, c, d = (rng.choice(vals) for _ in range(4))
        dfn = rng.choice([N['and'](a, b)['p'], N['or'](a, b)['p'], N['neg'](a)['p'], N['equiv'](a, b)['p']])
        shapes = [([(0, M(0)), (1, M(1))], [(0, a), (1, b)]),                     # full / full
                  ([(0, M(2))], [(0, a)]),                                         # partial / partial: metavar 1 stays open on both sides
                  ([(0, M(2))], [(0, a), (1, b)]),                                 # partial / full
                  ([(0, M(0)), (1, M(1)), (5, c)], [(0, a), (1, b), (5, d)]),      # key 5 does not occur in the definition
                  ([(0, M(0)), (1, M(1))], [(1, b), (0, a)]),                      # other key order
                  ([(1, M(0)), (0, M(1))], [(0, a), (1, b)]),
                  ([], [(0, a)]), ([(0, a)], [])]
        for pd, qd in shapes:
            P_, Q_ = pi2v.NINST(dfn, pd), pi2v.NINST(dfn, qd)
            out.append(([[P_, Q_]], []))
            out.append(([[P_, Q_]], [[1, b]]))
            out.append(([[P_, Q_]], [[1, M(1)]]))
            out.append(([[P_, Q_]], [[2, a]]))
            out.append(([[pi2v.IMP(P_, M(1)), pi2v.IMP(Q_, b)]], []))
    return out


def match_cases(eqlists, rng):
    """run match / match_single on the real implementation; cases of family "match" for Trace_PyOps"""
    cmds = []
    for eqs, seed in eqlists:
        if len(eqs) == 1 and (seed or rng.random() < 0.7):
            cmds.append({'fn': 'match_single', 'p': eqs[0][0], 'q': eqs[0][1], 'seed': seed if seed else None})
        else:
            cmds.append({'fn': 'match', 'eqs': eqs})
    res = py_run(cmds)
    cases = []
    for (eqs, seed), c, r in zip(eqlists, cmds, res):
        if c['fn'] == 'match':
            seed = []
        cases.append({'fam': 'match', 'api': c['fn'], 'eqs': eqs, 'seed': seed, 'out': 'ok' if r['out'] == 'ok' else 'raise',
                      'found': r['res'] is not None, 'sigma': r['res'] or []})
    return cases


def run(v, tier):
    quick = tier == 'quick'
    rng = random.Random(pi2v.SEED)
    u = pi2v.universes()
    N = funcs.NOT_DEFS
    M = pi2v.MV
    v.assumptions += ['completeness is only demanded for substitution-free patterns (as the property states)']
    pats = [t for t in u['U1'] if subst_free(t)] + [x['p'] for x in u['NU1'] if subst_free(x['p'])]
    gn = funcs.Gen(pi2v.SEED + 13, ids=(0, 1, 2), notation=True)
    pats += [t for t in (gn.term(3) for _ in range(300 if quick else 15000)) if subst_free(t)]
    import c12
    M_ = pi2v.MV
    ident = lambda x: pi2v.NINST(M_(0), [(0, x)])
    # alias / projection notations (definition = a bare metavariable), aliases of aliases, several levels above a binder
    chains = [x['p'] for x in c12.alias_chains(rng)] + [ident(pi2v.IMP(M_(0), M_(1))), ident(ident(pi2v.APP(M_(1), M_(2)))), ident(N['and'](M_(0), M_(1))),
                                                         pi2v.IMP(ident(M_(1)), ident(pi2v.EX(0, M_(2)))), ident(pi2v.MU(1, pi2v.IMP(M_(0), pi2v.SV(0))))]
    pats = chains * 3 + pats
    vals = [pi2v.EV(0), pi2v.EV(1), pi2v.SV(0), pi2v.SYM(0), M(0), M(1), pi2v.IMP(pi2v.EV(0), pi2v.SV(1)),
            pi2v.EX(0, pi2v.EV(0)), N['neg'](pi2v.EV(1)), N['bot'], pi2v.MU(0, pi2v.SV(0)), pi2v.APP(pi2v.SYM(0), pi2v.EV(1))]
    eqlists = []     # (eqs, seed)
    # instances BY CONSTRUCTION (spec->code: the instance is computed by the implementation's instantiate,
    # judged by TLC's own matcher, so a wrong instantiate cannot hide a wrong match)
    inst_cmds, inst_meta = [], []
    for p in chains * 2 + rng.sample(pats, min(len(pats), 500 if quick else 20000)):
        th = [[i, rng.choice(vals)] for i in (0, 1, 2)]
        inst_cmds.append({'fn': 'instantiate', 'p': p, 'd': th}); inst_meta.append((p, th))
    for (p, th), r in zip(inst_meta, py_run(inst_cmds)):
        if r['out'] == 'ok':
            eqlists.append(([[p, r['res']]], []))
            k = rng.choice((0, 1, 2))
            eqlists.append(([[p, r['res']]], [th[k]]))                       # consistent seed
            eqlists.append(([[p, r['res']]], [[th[k][0], pi2v.SV(1)]]))      # (probably) conflicting seed
    # arbitrary pairs (mostly non-matching) and ground pairs whose only solution is the empty substitution
    for _ in range(1500 if quick else 60000):
        eqlists.append(([[rng.choice(pats), rng.choice(pats)]], []))
    ground = [pi2v.EV(1), pi2v.SV(0), pi2v.SYM(0), pi2v.IMP(pi2v.EV(0), pi2v.EV(1)), N['bot'], N['top'], N['neg'](pi2v.EV(0)),
              pi2v.EX(1, pi2v.EV(1)), pi2v.MU(0, pi2v.SV(0))]
    for g in ground:
        eqlists.append(([[g, g]], []))
        eqlists.append(([[g, g], [M(0), pi2v.EV(0)]], []))
        eqlists.append(([[M(0), pi2v.EV(0)], [g, g]], []))
        eqlists.append(([[g, g], [g, g]], []))
    eqlists.append(([], []))
    eqlists += same_notation_eqlists(rng, vals, 200 if quick else 2500)
    cases = match_cases(eqlists, rng)
    v.sample({k: cases[0][k] for k in ('api', 'eqs', 'seed', 'found', 'sigma')})
    # notation round trips over every shipped notation
    nots = py_run([{'fn': 'notations'}])[0]['res']
    rt = []
    args_pool = vals + [N['and'](pi2v.EV(0), M(1)), pi2v.IMP(M(2), M(0))]
    for label, ar in nots:
        tuples = list(itertools.product(args_pool, repeat=ar)) if ar <= 1 else \
            [tuple(rng.choice(args_pool) for _ in range(ar)) for _ in range(20 if quick else 200)]
        for t in tuples:
            rt.append({'fn': 'roundtrip', 'label': label, 'args': list(t)})
    for c, r in zip(rt, py_run(rt)):
        rr = r['res'] or {'applied': pi2v.EV(0), 'matched': False, 'rebuilt': pi2v.EV(0)}
        cases.append({'fam': 'roundtrip', 'label': c['label'], 'args': c['args'], 'out': 'ok' if r['out'] == 'ok' else 'raise',
                      'applied': rr['applied'], 'matched': rr['matched'], 'rebuilt': rr['rebuilt']})
    v.cov['notations_round_tripped'] = len(nots)
    v.sample({k: cases[-1][k] for k in ('label', 'args', 'matched')})
    res, _ = funcs.run_blocks(v, 'C13', 'Trace_PyOps', 'c13-trace', cases, '', bs=300, needs_sem=True)
    for f in res.fails:
        c = cases[f[1] - 1]
        what = tkey(c.get('eqs') if c['fam'] == 'match' else [c['label'], c['args']])
        key = f"{f[2]}:{c.get('api', 'roundtrip')}:{what}:{tkey(c.get('seed', []))}"
        v.fail(key, f"{c.get('api', 'roundtrip')} {what[:400]} seed {tkey(c.get('seed', []))[:100]}: clause {f[2]}", {'family': 'pyops', 'case': c})
