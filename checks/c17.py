"""C17 - Metamath databases survive printing, re-parsing and slicing."""
import glob, os, random
import pi2v, funcs, mmgen
from pi2v import py_run, tkey
import c15


def run(v, tier):
    quick = tier == 'quick'
    rng = random.Random(pi2v.SEED)
    v.assumptions += ['tokenisation of Metamath text is whitespace splitting, done by the harness (trusted)',
                      'the dialect of generation/mm-benchmarks: <c>-is-pattern constructors, |- statements, compressed proofs',
                      'slice-proof is judged only for lemmas whose proof MMVerify (TLC) accepts against the whole database']
    reqs = []
    for i in range(150 if quick else 2000):
        text, lemmas = mmgen.database(random.Random(rng.random()), nlemmas=rng.choice([1, 2, 3]), zmode=rng.choice(['none', 'all', 'random', 'dup']),
                                      nconstr=rng.choice([1, 2, 3]), naxioms=rng.choice([2, 3, 4]), nrules=rng.choice([0, 1, 2]),
                                      nested=rng.random() < 0.5, disjoint=rng.random() < 0.65,
                                      nsugar=rng.choice([0, 0, 1]), nquoted=rng.choice([0, 0, 1, 2]), lemma_hyps=True)
        reqs.append({'cmd': 'mmdb', 'text': text, 'lemmas': lemmas})
    for i in range(10 if quick else 100):     # proofs that need a top-level $d between DUMMY variables
        text, lemmas = mmgen.dummy_database(random.Random(rng.random()), zmode=rng.choice(['none', 'all']))
        reqs.append({'cmd': 'mmdb', 'text': text, 'lemmas': lemmas})
    for i in range(6 if quick else 60):      # a constant that occurs only inside doubly nested axiom blocks
        text, lemmas = mmgen.nested_constant_database(random.Random(rng.random()), zmode=rng.choice(['none', 'all']))
        reqs.append({'cmd': 'mmdb', 'text': text, 'lemmas': lemmas})
    # history: a database in which a token is a CONSTANT, handled after a database in which the same token is a VARIABLE
    # (the parse must be a function of the text alone); its fresh parse comes from a process that has seen nothing else
    def retoken(text, ren):
        return '\n'.join(' '.join(ren.get(tok, tok) for tok in line.split(' ')) for line in text.split('\n'))
    hist = []
    for i in range(4 if quick else 100):
        t1, _ = mmgen.database(random.Random(rng.random()), nlemmas=1, zmode='none', nconstr=2, naxioms=2, nrules=1)
        t2, l2 = mmgen.database(random.Random(rng.random()), nlemmas=rng.choice([1, 2]), zmode=rng.choice(['none', 'all']), nconstr=2, naxioms=3, nrules=1)
        t2 = retoken(t2, {'ph3': 'ph9', 'ph3-is-pattern': 'ph9-is-pattern', '\\c0': 'ph3'})
        hist.append(len(reqs))
        reqs.append({'cmd': 'mmdb', 'text': t2, 'lemmas': l2, 'pre': [t1]})
    # shipped benchmarks: print / parse round trip (slicing only for the small ones)
    for f in sorted(glob.glob(os.path.join(pi2v.REPO, 'generation/mm-benchmarks/*.mm'))):
        sz = os.path.getsize(f)
        if sz < (40000 if quick else 400000):
            reqs.append({'cmd': 'mmdb', 'text': open(f).read(), 'lemmas': [], 'slice': False, 'file': os.path.basename(f)})
    res = c15.lem_run(reqs)
    from concurrent.futures import ThreadPoolExecutor
    with ThreadPoolExecutor(8) as ex:      # one fresh harness process per history case
        fresh = list(ex.map(lambda k: pi2v.py_run([{'cmd': 'mmdb', 'text': reqs[k]['text'], 'lemmas': [], 'slice': False}], script='mmharness.py')[0], hist))
    fresh = {k: (f['ast'] if f['out'] == 'ok' else []) for k, f in zip(hist, fresh)}
    cases = []
    for q, r in zip(reqs, res):
        if r['out'] != 'ok':
            cases.append({'fam': 'db', 'out': 'raise', 'exc': r['out'], 'text': q['text'][:2000], 'lemmas': q['lemmas'], 'ast': [], 'printed': [], 'ast2': [], 'slices': []})
        else:
            cases.append({'fam': 'db', 'out': 'ok', 'exc': '', 'text': q['text'] if len(q['text']) < 5000 else q.get('file', ''), 'lemmas': q['lemmas'] if q.get('slice', True) else [],
                          'ast': r['ast'], 'printed': r['printed'], 'ast2': r['ast2'], 'slices': r['slices']})
        k = len(cases) - 1
        cases[-1]['hasfresh'] = k in fresh
        cases[-1]['fresh'] = fresh.get(k, [])
    v.cov['databases'] = len(cases)
    v.cov['slices'] = sum(len(c['slices']) for c in cases)
    v.sample({'database': cases[0]['text'][-600:], 'lemmas': cases[0]['lemmas']})
    res, _ = funcs.run_blocks(v, 'C17', 'Trace_MMDb', 'c17-trace', cases, '', bs=2)
    v.cov['slice_proofs_verified_by_MMVerify'] = len([i for i in res.infos if i[1] == 'slice-proof-judged'])
    for f in res.fails:
        c = cases[f[1] - 1]
        v.fail(f"{f[2]}:{tkey(c['text'])[:400]}", f"clause {f[2]} ({c['exc']}) on database ...{c['text'][-300:]!r}", {'family': 'mmdb', 'case': {'text': c['text'], 'lemmas': c['lemmas']}})
