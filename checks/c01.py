"""C01 - checker soundness.  (A) TLC model-checks the machine specification for SoundTop;
(B) the explored transitions and the implementation's own reachable transitions are executed
by the real checker code; (C) Trace_Machine evaluates, with TLC, soundness of every proved
term the implementation produced."""
import json, os, random
import pi2v, machine
from pi2v import run_tlc, tlc_must_be_clean, workdir, write_ndjson, MachineryError, tkey

REACH_CFG = """SPECIFICATION Spec
CONSTANTS
 Alphabet <- {alpha}
 Gamma <- {gamma}
 MaxStack = {maxstack}
 MaxMem = 1
 MaxSize = {maxsize}
 MaxDepth = {depth}
 DoExport = {export}
 MaxCarrier = {carrier}
 MaxCarrierApp = 2
INVARIANT SoundTop
INVARIANT TypeOK
CONSTRAINT Bounded
{ac}
VIEW View
CHECK_DEADLOCK FALSE
"""

TRACE_CFG = """SPECIFICATION Spec
CONSTANTS
 BlockSize = {bs}
 SemSize = {semsize}
 SemMVs = {semmvs}
 MaxCarrier = {carrier}
 MaxCarrierApp = 2
CHECK_DEADLOCK FALSE
"""


def reach(v, name, alpha, gamma, depth, export, maxstack=4, maxsize=9, carrier=2, timeout=3000):
    wd = workdir(name)
    cfg = REACH_CFG.format(alpha=alpha, gamma=gamma, depth=depth, export='TRUE' if export else 'FALSE',
                           maxstack=maxstack, maxsize=maxsize, carrier=carrier,
                           ac='ACTION_CONSTRAINT Export' if export else '')
    res = run_tlc('MC_Reach', cfg, wd, timeout=timeout)
    if res.invariant_violated:
        raise MachineryError(f'the SPECIFICATION violates {res.invariant_violated} in {name} (see {wd}/MC_Reach.out)')
    tlc_must_be_clean(res, name)
    v.add_tlc(res)
    trans, alphabet = [], None
    for line in res.out.splitlines():
        line = line.strip()
        if line.startswith('"TRANS '):
            trans.append(json.loads(json.loads(line)[6:]))
        elif line.startswith('"ALPHA '):
            alphabet = json.loads(json.loads(line)[6:])
    pi2v.log(f'[C01] {name}: {res.distinct} states, {res.generated} transitions, {len(trans)} exported, {res.wall:.1f}s')
    return trans, alphabet


def validate(v, name, cases, semsize=9, semmvs=2, carrier=None, bs=200, clauses=('unsound',)):
    carrier = carrier or (2 if v.tier == 'quick' else 3)
    """Trace_Machine over recorded cases; returns list of (clause, case)."""
    wd = workdir(name)
    path = os.path.join(wd, 'cases.ndjson')
    write_ndjson(path, cases)
    res = run_tlc('Trace_Machine', TRACE_CFG.format(bs=bs, semsize=semsize, semmvs=semmvs, carrier=carrier), wd,
                  env={'CASES': path})
    tlc_must_be_clean(res, name)
    done = sum(d[2] for d in res.dones)
    if done != len(cases):
        raise MachineryError(f'{name}: TLC examined {done} of {len(cases)} recorded cases')
    v.add_tlc(res)
    v.cov['traces_validated_against_impl'] += len(cases)
    ops = v.cov.setdefault('steps_by_opcode_accepted_rejected', {})
    for c in cases:
        o = ops.setdefault(c['ins']['op'], [0, 0])
        o[0 if c['out'] == 'ok' else 1] += 1
    out = []
    for f in res.fails:
        out.append((f[2], cases[f[1] - 1]))
    pi2v.log(f'[C01] {name}: {len(cases)} implementation steps validated, {len(out)} FAIL, {res.wall:.1f}s')
    return out


def impl_bfs(alphabet, depth, gamma_terms, maxstack=4, maxsize=9, maxstates=4000):
    """Breadth-first exploration of the IMPLEMENTATION's own state space over the alphabet:
    every reached Rust state x every instruction is executed by the Rust code and recorded."""
    init = {'stack': [], 'memory': [{'k': 'prf', 'p': g} for g in gamma_terms], 'claims': [], 'phase': 'proof',
            'gamma': gamma_terms}
    seen = {tkey([init['stack'], init['memory']])}
    frontier, cases = [init], []
    for d in range(depth):
        pairs = [(s, i) for s in frontier for i in alphabet]
        got = machine.replay_steps(pairs)
        cases += got
        nxt = []
        for c in got:
            if c['out'] != 'ok':
                continue
            if len(c['post']) > maxstack or len(c['postmem']) > 1 + len(gamma_terms):
                continue
            if any(pi2v.tsize(e['p']) > maxsize for e in c['post']):
                continue
            k = tkey([c['post'], c['postmem']])
            if k in seen:
                continue
            seen.add(k)
            nxt.append({'stack': c['post'], 'memory': c['postmem'], 'claims': c['postclaims'], 'phase': 'proof',
                        'gamma': gamma_terms})
        frontier = nxt[:maxstates]
        if not frontier:
            break
    return cases


def indstep(v, quick, tag='c01', clauses=('unsound',), semsize=24):
    """(A1) inductive step on the specification + the same rule instances executed by Rust."""
    import funcs
    res, n = funcs.run_blocks(v, tag.upper(), 'MC_IndStep', tag + '-indstep', None, ' Quick = ' + ('TRUE' if quick else 'FALSE'), bs=4, needs_sem=True, carrier=(2 if quick else 3))
    if res.fails:
        raise MachineryError(f'the SPECIFICATION machine is unsound in the inductive step: {res.fails[:3]}')
    valid, alpha, plugs, plugs2 = [], None, None, None
    for line in res.out.splitlines():
        line = line.strip()
        if line.startswith('"VALID '):
            valid.append(json.loads(json.loads(line)[6:]))
        elif line.startswith('"ALPHA '):
            alpha = json.loads(json.loads(line)[6:])
        elif line.startswith('"PLUGS2 '):
            plugs2 = json.loads(json.loads(line)[7:])
        elif line.startswith('"PLUGS '):
            plugs = json.loads(json.loads(line)[6:])
    v.cov['inductive_step_premises_valid'] = len(valid)
    v.cov['inductive_step_candidates'] = n
    vkeys = {tkey(x) for x in valid}
    pairs = []
    def st(stack):
        return {'stack': stack, 'memory': [], 'claims': [], 'phase': 'proof', 'gamma': []}
    for x in valid:
        for i in alpha:
            if i['op'] == 'Instantiate' and len(i['ids']) == 2:
                for g1 in plugs2:
                    for g2 in plugs2:
                        pairs.append((st([{'k': 'pat', 'p': g2}, {'k': 'pat', 'p': g1}, {'k': 'prf', 'p': x}]), i))
            else:
                for g in plugs:
                    pairs.append((st([{'k': 'pat', 'p': g}, {'k': 'prf', 'p': x}]), i))
        if x['t'] == 'imp' and tkey(x['l']) in vkeys:
            pairs.append((st([{'k': 'prf', 'p': x}, {'k': 'prf', 'p': x['l']}]), machine.ins('ModusPonens')))
    cases = machine.replay_steps(pairs)
    v.sample({'pre_stack': cases[5]['stack'], 'ins': cases[5]['ins'], 'out': cases[5]['out']})
    fails = validate(v, tag + '-indstep-trace', cases, semsize=semsize, semmvs=3, bs=400)
    if tag == 'c01':
        report(v, fails, 'inductive step from a valid premise')
    return fails


def report(v, fails, source):
    for clause, c in fails:
        if clause == 'decode':
            raise MachineryError(f'harness encoded an instruction the spec decodes differently: {c["ins"]}')
        if clause == 'unsound':
            top = c['post'][-1]['p']
            key = 'unsound:' + c['ins']['op'] + ':' + tkey(top)
            v.fail(key, f'checker marks as proved a pattern that is not valid: {tkey(top)} after {c["ins"]} ({source})',
                   {'family': 'mstep', 'case': c})


def run(v, tier):
    quick = tier == 'quick'
    v.assumptions += ['carriers 1..2 (quick); 1..3 for application-free patterns in the thorough tier; instance universe InstUSmall',
                      'rustc stable in place of the pinned nightly',
                      'axioms of the gamma phase are assumed valid (theory-relative validity)']
    # (A)+(B): spec-side frontier
    trans, alphabet = reach(v, 'c01-reach', 'AlphaQuick', 'GammaEmpty', 4 if quick else 6, True)
    pairs = [({'stack': t['stack'], 'memory': t['memory'], 'claims': [], 'phase': 'proof', 'gamma': []}, t['ins'])
             for t in trans]
    cases = machine.replay_steps(pairs)
    v.sample({'pre_stack': cases[-1]['stack'], 'ins': cases[-1]['ins'], 'out': cases[-1]['out']})
    report(v, validate(v, 'c01-reach-trace', cases), 'spec-explored transition')
    # theory-relative soundness: memory pre-populated with the axiom of a small valid theory (s0 -> s1)
    trans_g, _ = reach(v, 'c01-reach-theory', 'AlphaTheory', 'GammaSmall', 4 if quick else 6, True, carrier=2)
    g_ax = [pi2v.IMP(pi2v.SYM(0), pi2v.SYM(1))]
    pairs = [({'stack': t['stack'], 'memory': t['memory'], 'claims': [], 'phase': 'proof', 'gamma': g_ax}, t['ins']) for t in trans_g]
    report(v, validate(v, 'c01-reach-theory-trace', machine.replay_steps(pairs)), 'spec-explored transition (theory s0 -> s1)')
    indstep(v, quick)
    # (A): deeper, directed alphabet, no export
    _, calpha = reach(v, 'c01-reach-capture', 'AlphaCapture', 'GammaEmpty', 8 if quick else 10, False)
    # (C): the implementation's own frontier over the same alphabets
    cases = impl_bfs(calpha, 7 if quick else 9, [])
    report(v, validate(v, 'c01-impl-capture', cases), 'implementation-explored transition')
    v.sample({'pre_stack': cases[-1]['stack'], 'ins': cases[-1]['ins'], 'out': cases[-1]['out']})
    if not quick:
        cases = impl_bfs(alphabet, 5, [])
        report(v, validate(v, 'c01-impl-quick', cases), 'implementation-explored transition')
