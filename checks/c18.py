"""C18 - output is a deterministic function of the input (process, hash seed, in-process history)."""
import json, os, random, subprocess
from concurrent.futures import ThreadPoolExecutor
import pi2v
from pi2v import py_run
import funcs, mmgen, exprs
from pi2v import run_tlc, tlc_must_be_clean, workdir, write_ndjson, MachineryError

CFG = """SPECIFICATION Spec
CONSTANTS
 Mode = "{mode}"
 NInputs = {n}
 MaxHist = {h}
 NSeeds = {s}
CHECK_DEADLOCK FALSE
"""


def pool(rng, quick):
    p = []
    mods = ['propositional', 'small_theory', 'substitution'] + ([] if quick else ['definedness', 'kore_lemmas', 'tautology'])
    for name in mods:
        p.append({'kind': 'module', 'name': name, 'opt': True, 'fmt': 'binary'})
    p.append({'kind': 'module', 'name': 'propositional', 'opt': False, 'fmt': 'binary'})
    p.append({'kind': 'module', 'name': 'propositional', 'opt': True, 'fmt': 'pretty'})
    p.append({'kind': 'module', 'name': 'substitution', 'opt': True, 'fmt': 'pretty'})
    rec = exprs.edge_modules(rng, 2)
    for m in (rec[-2], rec[-3]) + tuple(exprs.graph_modules(rng)[:2]):
        p.append({'kind': 'recipe', 'module': m, 'opt': True, 'fmt': 'binary'})
    # two imported notations that share one definition: which one prints is decided by the order of the notation list
    D = pi2v.IMP(pi2v.MV(0), pi2v.IMP(pi2v.MV(1), pi2v.MV(0)))
    app_ = lambda a, b: pi2v.NINST(D, [(0, a), (1, b)])
    sub = {'lib': False, 'notations': [['nA', 2, D, 'A({0}, {1})'], ['nB', 2, D, 'B({0}; {1})'], ['nC', 2, D, 'C<{0}|{1}>']], 'axioms': [app_(pi2v.SYM(0), pi2v.SYM(1))]}
    p.append({'kind': 'recipe', 'module': {'lib': False, 'imports': [sub], 'axioms': [app_(pi2v.SYM(1), pi2v.SYM(0))], 'proofs': [['axiom', 0]]}, 'opt': False, 'fmt': 'pretty'})
    # a notation that ignores one of its parameters (the sort of kore-and) as a top-level plug, in both formats: the schedules
    # serialise the same module object again (the worker keeps one object per module)
    ka = py_run([{'fn': 'apply_notation', 'label': 'kore-and', 'args': [pi2v.SYM(7), pi2v.MV(0), pi2v.SYM(8)]}])[0]['res']
    km = {'lib': True, 'proofs': [['lemma', 'imp_refl', [{'pattern': ka}]], ['dyn', ['prop2'], [[1, ka], [0, pi2v.SYM(8)]]]]}
    for fmt, opt in (('binary', False), ('pretty', False), ('binary', True)):
        p.append({'kind': 'recipe', 'module': km, 'opt': opt, 'fmt': fmt})
    # symbol-bearing nested patterns with equal memoisation scores (the optimiser's tie-breaking must not follow hash order)
    A_, I_ = pi2v.APP, pi2v.IMP
    for (x, y) in ((pi2v.SYM(11), pi2v.SYM(12)), (pi2v.SYM(21), pi2v.SYM(5))):
        t0 = A_(I_(x, y), x)
        p.append({'kind': 'recipe', 'module': {'lib': True, 'axioms': [I_(t0, x), I_(x, y)],
                                               'proofs': [['lemma', 'imp_transitivity', [{'thunk': ['axiom', 0]}, {'thunk': ['axiom', 1]}]]]}, 'opt': True, 'fmt': 'binary'})
    t1 = A_(A_(pi2v.SYM(3), I_(pi2v.SYM(4), pi2v.SYM(3))), I_(pi2v.SYM(4), pi2v.SYM(3)))
    p.append({'kind': 'recipe', 'module': {'lib': True, 'axioms': [I_(t1, pi2v.SYM(4)), I_(pi2v.SYM(4), t1), I_(I_(pi2v.SYM(4), pi2v.SYM(3)), t1)],
                                           'proofs': [['lemma', 'imp_transitivity', [{'thunk': ['axiom', 0]}, {'thunk': ['axiom', 1]}]], ['axiom', 2]]}, 'opt': True, 'fmt': 'binary'})
    # Metamath databases whose target has two or three metavariables
    k = 0
    while k < (2 if quick else 5):
        text, _ = mmgen.database(random.Random(rng.random()), nlemmas=1, zmode='random', deep=True)
        goal = text.strip().splitlines()[-1]
        if sum(1 for x in ('ph0', 'ph1', 'ph2', 'ph3') if x in goal.split('$=')[0]) >= 2:
            p.append({'kind': 'mm', 'text': text})
            k += 1
    return p


def run(v, tier):
    quick = tier == 'quick'
    rng = random.Random(pi2v.SEED)
    v.assumptions += ['hash seeds are sampled (the seed is an uninterpreted parameter of the model): 0, 1, 2, VERIF_SEED-derived',
                      'outputs are compared through SHA-256 digests of the three files (strings in TLC)']
    P = pool(rng, quick)
    seeds = ['0', '1', '2', '6', '7', str(1000 + pi2v.SEED)][:5 if quick else 6]
    hmax = 2 if quick else 3
    # (B) TLC enumerates the schedules
    wd = workdir('c18-sched')
    res = run_tlc('Determinism', CFG.format(mode='sched', n=len(P), h=hmax, s=len(seeds)), wd, workers=4)
    tlc_must_be_clean(res, 'c18-sched')
    v.add_tlc(res)
    scheds = []
    for line in res.out.splitlines():
        line = line.strip()
        if line.startswith('"SCHED '):
            scheds.append(json.loads(json.loads(line)[6:]))
    scheds.sort(key=lambda s: (s['seed'], s['inputs']))      # TLC's workers print them in no particular order: keep the sample reproducible
    full = [s for s in scheds if len(s['inputs']) == hmax] + [s for s in scheds if len(s['inputs']) == 1]
    if len(full) > (220 if quick else 3000):
        full = rng.sample(full, 220 if quick else 3000)
    v.cov['schedules_enumerated_by_tlc'] = len(scheds)
    v.cov['schedules_realised'] = len(full)

    def worker(s):
        e = dict(os.environ)
        e['PYTHONHASHSEED'] = seeds[s['seed'] - 1]
        e['PYTHONPATH'] = os.path.join(pi2v.REPO, 'generation/src') + ':' + os.path.join(pi2v.VERIF, 'harness/py')
        e['PYTHONDONTWRITEBYTECODE'] = '1'
        r = subprocess.run([pi2v.PY, os.path.join(pi2v.VERIF, 'harness/py/detworker.py')], input=json.dumps({'pool': P, 'inputs': s['inputs']}),
                           capture_output=True, text=True, env=e)
        if r.returncode != 0:
            raise MachineryError('determinism worker failed: ' + r.stderr[-500:])
        return json.loads(r.stdout)
    with ThreadPoolExecutor(14) as ex:
        outs = list(ex.map(worker, full))
    events = []
    for pid, (s, o) in enumerate(zip(full, outs)):
        for ev in o:
            events.append({'proc': pid, 'seed': seeds[s['seed'] - 1], 'hist': s['inputs'][:ev['hist_len']], 'input': ev['input'], 'sha': ev['sha']})
    v.cov['serialisations'] = len(events)
    v.sample({k: events[0][k] for k in ('seed', 'hist', 'input', 'sha')})
    v.sample({'pool': [{k: (x[k] if k != 'text' else x[k][-200:]) for k in x if k != 'module'} for x in P]})
    wd = workdir('c18-trace')
    path = os.path.join(wd, 'events.ndjson')
    write_ndjson(path, events)
    res = run_tlc('Determinism', CFG.format(mode='trace', n=len(P), h=hmax, s=len(seeds)), wd, env={'CASES': path}, workers=1)
    tlc_must_be_clean(res, 'c18-trace')
    if not res.dones or res.dones[0][2] != len(events):
        raise MachineryError('c18-trace: not all events were examined')
    v.add_tlc(res)
    v.cov['traces_validated_against_impl'] += len(full)
    pi2v.log(f'[C18] {len(full)} processes / {len(events)} serialisations validated, {len(res.fails)} FAIL')
    for f in res.fails:
        e = events[f[1] - 1]
        inp = P[e['input'] - 1]
        desc = {k: inp[k] for k in inp if k not in ('text', 'module')}
        first = next(x for x in events if x['input'] == e['input'])
        v.fail(f"nondeterministic:{json.dumps(desc, sort_keys=True)}:{(inp.get('text') or json.dumps(inp.get('module'), sort_keys=True) or '')[-200:]}",
               f"input {desc}: digest {e['sha'][:40]} (seed {e['seed']}, after {e['hist']}) differs from first observation {first['sha'][:40]} (seed {first['seed']}, after {first['hist']})",
               {'family': 'det', 'case': {'input': inp, 'seed': e['seed'], 'hist': [P[i - 1] for i in e['hist']]}})
