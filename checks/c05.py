"""C05 - the checker implements the documented machine.  Every recorded execution of the
Rust checker (single steps from TLC-explored and implementation-explored states, exhaustive
short byte programs in the three phases, mutated valid programs, shipped triples) must be
a behaviour of MLMachine: same verdict, and on acceptance the same stack, memory, claims."""
import glob, itertools, json, os, random, subprocess
import pi2v, machine, c01
from pi2v import run_tlc, tlc_must_be_clean, workdir, write_ndjson, MachineryError, tkey, prefix, rust_run

STREAM_CFG = """SPECIFICATION Spec
CONSTANTS
 BlockSize = {bs}
CHECK_DEADLOCK FALSE
"""


def validate_stream(v, name, cases, bs=500):
    wd = workdir(name)
    path = os.path.join(wd, 'cases.ndjson')
    write_ndjson(path, cases)
    res = run_tlc('Trace_Stream', STREAM_CFG.format(bs=bs), wd, env={'CASES': path})
    tlc_must_be_clean(res, name)
    done = sum(d[2] for d in res.dones)
    if done != len(cases):
        raise MachineryError(f'{name}: TLC examined {done} of {len(cases)} recorded cases')
    v.add_tlc(res)
    v.cov['traces_validated_against_impl'] += len(cases)
    pi2v.log(f'[C05] {name}: {len(cases)} recorded runs validated, {len(res.fails)} FAIL, {res.wall:.1f}s')
    return [(f[2], cases[f[1] - 1]) for f in res.fails]


def phase_cases(progs):
    """progs: list of (phase, pre-state, bytes) -> recorded 'phase' cases"""
    cmds, idx = [], []
    for phase, pre, bs in progs:
        cmds += machine.setup_cmds(pre['stack'], pre['memory'], pre['claims'])
        cmds.append(f'exec {phase} ' + ' '.join(map(str, bs)))
        idx.append(len(cmds) - 1)
    res = rust_run(cmds)
    out = []
    for (phase, pre, bs), k in zip(progs, idx):
        r = res[k]
        out.append({'kind': 'phase', 'phase': phase, 'stack': pre['stack'], 'memory': pre['memory'],
                    'claims': pre['claims'], 'bytes': list(bs), 'out': r['out'], 'post': r['stack'],
                    'postmem': r['memory'], 'postclaims': r['claims']})
    return out


def verify_cases(triples, with_binary=False):
    cmds = []
    for g, c, p in triples:
        cmds.append('verify ' + ' '.join(str(len(x)) + ' ' + ' '.join(map(str, x)) for x in (g, c, p)))
    res = rust_run(cmds)
    out = []
    exe = pi2v.build_checker() if with_binary else None
    wd = workdir('c05-bin') if with_binary else None
    for n, ((g, c, p), r) in enumerate(zip(triples, res)):
        b = 'none'
        if with_binary:
            fs = []
            for nm, x in (('g', g), ('c', c), ('p', p)):
                fp = os.path.join(wd, f'{n}.{nm}')
                open(fp, 'wb').write(bytes(x)); fs.append(fp)
            rc = subprocess.run([exe] + fs, capture_output=True).returncode
            b = 'ok' if rc == 0 else 'panic'
            if not c:        # the two-argument form of the binary (gamma-file proof-file) must mean "no claims"
                rc2 = subprocess.run([exe, fs[0], fs[2]], capture_output=True).returncode
                if (rc2 == 0) != (rc == 0):
                    b = 'two-arg-form-differs'
        out.append({'kind': 'verify', 'gamma': list(g), 'claim': list(c), 'proof': list(p), 'out': r['out'],
                    'own': r['own'], 'bin': b, 'post': r['stack'], 'postmem': r['memory'], 'postclaims': r['claims']})
    return out


def shipped_triples():
    out = []
    for g in sorted(glob.glob(os.path.join(pi2v.REPO, 'proofs/**/*.ml-gamma'), recursive=True)):
        b = g[:-len('.ml-gamma')]
        out.append((b, tuple(list(open(b + s, 'rb').read()) for s in ('.ml-gamma', '.ml-claim', '.ml-proof'))))
    return out


X0 = pi2v.EV(0); PHI0 = pi2v.MV(0)
PRELOADS = {
    'empty': {'stack': [], 'memory': [], 'claims': []},
    'loaded': {'stack': [{'k': 'pat', 'p': PHI0}, {'k': 'pat', 'p': pi2v.SV(0)},
                         {'k': 'prf', 'p': pi2v.IMP(PHI0, PHI0)}, {'k': 'prf', 'p': PHI0}],
               'memory': [{'k': 'prf', 'p': pi2v.IMP(PHI0, PHI0)}, {'k': 'pat', 'p': X0}],
               'claims': [PHI0]},
}
ALPHA_BYTES = list(range(2, 31)) + [137, 0, 1, 31, 255]


def report(v, fails, source):
    for clause, c in fails:
        if clause in ('decode', 'harness'):
            raise MachineryError(f'machinery inconsistency ({clause}) on {json.dumps(c)[:300]}')
        if clause == 'unsound':
            continue   # C01's clause
        if c.get('kind') == 'verify':
            key = f"{clause}:verify:{c['gamma']}:{c['claim']}:{c['proof']}"[:400]
            desc = f"three-phase run: implementation says {c['out']}, clause {clause} ({source})"
        elif c.get('kind') == 'phase':
            key = f"{clause}:{c['phase']}:{'empty' if not c['stack'] else 'loaded'}:{c['bytes']}"
            desc = f"bytes {c['bytes']} in phase {c['phase']}: implementation says {c['out']}, clause {clause} ({source})"
        else:
            key = f"{clause}:step:{c['ins']['op']}:{tkey(c['ins'])}:{tkey(c['stack'])}"[:600]
            desc = f"step {c['ins']} on stack {tkey(c['stack'])[:200]}: implementation says {c['out']}, clause {clause} ({source})"
        v.fail(key, desc, {'family': c.get('kind', 'mstep'), 'case': c})


def mutations(rng, bs, n):
    out = []
    for _ in range(n):
        b = list(bs)
        k = rng.randrange(4)
        if not b:
            break
        i = rng.randrange(len(b))
        if k == 0:
            b[i] = rng.choice(ALPHA_BYTES)
        elif k == 1:
            del b[i]
        elif k == 2:
            b.insert(i, rng.choice(ALPHA_BYTES))
        else:
            b = b[:i]
        out.append(b)
    return out


def run(v, tier):
    quick = tier == 'quick'
    rng = random.Random(pi2v.SEED)
    v.assumptions += ['MemoryPersists: one memory across the three phases (code and generator rely on it; the document marks it TODO)',
                      'unimplemented opcodes (Frame, KnasterTarski, Propagation*, PreFixpoint, Singleton) are Reject',
                      'rustc stable in place of the pinned nightly']
    # 1. single steps: spec-explored (TLC export) and implementation-explored states, full alphabet
    trans, alphabet = c01.reach(v, 'c05-reach', 'AlphaFull', 'GammaEmpty', 3 if quick else 4, True)
    pairs = [({'stack': t['stack'], 'memory': t['memory'], 'claims': [], 'phase': 'proof', 'gamma': []}, t['ins'])
             for t in trans]
    cases = machine.replay_steps(pairs)
    report(v, c01.validate(v, 'c05-reach-trace', cases, semsize=0), 'spec-explored transition')
    v.sample({'pre_stack': cases[-1]['stack'], 'ins': cases[-1]['ins'], 'out': cases[-1]['out']})
    cases = c01.impl_bfs(alphabet, 3 if quick else 4, [])
    report(v, c01.validate(v, 'c05-impl', cases, semsize=0), 'implementation-explored transition')
    # 1b. the well-formedness side conditions of Mu / ESubst / SSubst on terms of the TLC universes (pending substitutions over
    #     constrained metavariables, binders): the machine's verdict is WFNode, whatever judgement functions the checker uses
    u = pi2v.universes()
    wf_terms = u['U1'] + rng.sample(u['U2S'], 300 if quick else 3115)
    plugs = [pi2v.EV(0), pi2v.SV(0), pi2v.SV(1), pi2v.IMP(pi2v.SV(0), pi2v.MU(0, pi2v.SV(0))), pi2v.APP(pi2v.SV(0), pi2v.SV(0)), pi2v.MV(1, [], [], [0], [], [])]
    I = lambda op, n: {'op': op, 'n': n, 'ids': [], 'cs': []}
    wpairs = []
    for t in wf_terms:
        st1 = {'stack': [{'k': 'pat', 'p': t}], 'memory': [], 'claims': [], 'phase': 'proof', 'gamma': []}
        wpairs += [(st1, I('Mu', 0)), (st1, I('Mu', 1))]
        g = rng.choice(plugs)
        st2 = {'stack': [{'k': 'pat', 'p': g}, {'k': 'pat', 'p': t}], 'memory': [], 'claims': [], 'phase': 'proof', 'gamma': []}
        wpairs += [(st2, I('SSubst', rng.choice((0, 1)))), (st2, I('ESubst', rng.choice((0, 1))))]
    report(v, c01.validate(v, 'c05-wf', machine.replay_steps(wpairs), semsize=0), 'well-formedness condition of Mu / ESubst / SSubst')
    # rule instances from valid premises (the inductive-step family of C01: accepted ModusPonens / Generalization / Substitution / Instantiate)
    report(v, c01.indstep(v, quick, tag='c05', semsize=0), 'rule instance from a valid premise')
    never = sorted(o for o, (a, r) in v.cov.get('steps_by_opcode_accepted_rejected', {}).items() if a == 0 or r == 0)
    v.cov['opcodes_never_accepted_or_never_rejected_in_step_cases'] = never      # non-vacuity of the step family
    # 2. exhaustive short byte programs, three phases, empty and pre-loaded state
    L = 2 if quick else 3
    progs = []
    for phase in ('gamma', 'claim', 'proof'):
        for pname, pre in PRELOADS.items():
            for n in range(1, L + 1):
                for bs in itertools.product(ALPHA_BYTES, repeat=n):
                    progs.append((phase, pre, bs))
    if quick:   # length 3 in the proof phase from the loaded state, seeded sample
        allp = list(itertools.product(ALPHA_BYTES, repeat=3))
        for bs in rng.sample(allp, 12000):
            progs.append(('proof', PRELOADS['loaded'], bs))
    cases = phase_cases(progs)
    v.cov['exhaustive_short_programs'] = len(progs)
    v.sample({'phase': cases[100]['phase'], 'bytes': cases[100]['bytes'], 'out': cases[100]['out']})
    report(v, validate_stream(v, 'c05-short', cases), 'exhaustive short program')
    # 2b. every proper prefix of every instruction encoding (alone and after a valid prefix) must be rejected,
    #     the full encoding is judged by the machine
    I = machine.ins
    singles = [I('EVar', 1), I('SVar', 0), I('Symbol', 2), I('Mu', 0), I('Exists', 1), I('ESubst', 0), I('SSubst', 1), I('Generalization', 0),
               I('Substitution', 1), I('Load', 0), I('CleanMetaVar', 1), machine.iinst([0]), machine.iinst([1, 0]), machine.iinst([]),
               I('MetaVar', 0, (), ([], [], [], [], [])), I('MetaVar', 1, (), ([0], [], [], [], [])), I('MetaVar', 2, (), ([0, 1], [1], [0], [1], [2])),
               I('MetaVar', 0, (), ([], [], [], [], [1, 2])), I('MetaVar', 0, (), ([], [], [3], [], [])), I('MetaVar', 0, (), ([1], [], [], [], [1]))]
    progs = []
    for i in singles:
        enc = machine.encode(i)
        for cut in range(1, len(enc) + 1):
            for phase in ('gamma', 'claim', 'proof'):
                for pre in PRELOADS.values():
                    progs.append((phase, pre, enc[:cut]))
                    progs.append((phase, pre, [12] + enc[:cut]))
                    progs.append((phase, pre, enc + enc[:cut]))
    cases = phase_cases(progs)
    v.cov['truncation_programs'] = len(progs)
    report(v, validate_stream(v, 'c05-trunc', cases), 'truncated operand')
    # 2c. tiny three-phase programs: every combination of snippets per phase through the real verify()
    #     (stack cleared between phases, memory persists, claims consumed in reverse, nothing left over)
    snippets = [[], [2, 0], [2, 0, 30], [137, 0, 30, 137, 1, 30], [137, 0, 30, 137, 0, 137, 0, 5, 30], [12], [12, 30], [27], [28], [29, 0], [29, 0, 30], [29, 1, 30],
                [2, 0, 28, 30], [137, 0, 137, 0, 5, 28, 30, 2, 1], [12, 27]]
    triples = [(g, c, p) for g in snippets for c in snippets for p in snippets]
    if quick:
        triples = rng.sample(triples, 1200)
    cases = verify_cases(triples)
    v.cov['three_phase_snippet_programs'] = len(triples)
    report(v, validate_stream(v, 'c05-3phase', cases, bs=100), 'three-phase snippet program')
    # 2d. the substitution / instantiation functions of the checker against the machine's strict operators
    import c11, funcs
    u = pi2v.universes()
    terms = u['U1'] + rng.sample(u['U2S'], 300 if quick else 3115)
    fc = c11.subst_cases('rust', terms, rng, 3 if quick else 6) + c11.inst_cases('rust', terms, rng, 3 if quick else 8)
    res, _ = funcs.run_blocks(v, 'C05', 'Trace_Subst', 'c05-fn', fc, ' Mode = "trace"', bs=300, needs_sem=True)
    for f in res.fails:
        c = fc[f[1] - 1]
        arg = {k: c[k] for k in ('x', 'g', 'ids', 'plugs') if k in c}
        v.fail(f"fn-{f[2]}:{c['fn']}:{tkey(c['p'])}:{tkey(arg)}", f"rust {c['fn']} on {tkey(c['p'])[:200]} with {tkey(arg)[:200]}: out={c['out']}, clause {f[2]}",
               {'family': 'subst', 'case': c})
    # 3. shipped triples: real verify(), checker binary, and mutations of them
    ship = shipped_triples()
    small = [t for _, t in ship if sum(map(len, t)) < (6000 if quick else 10 ** 9)]
    cases = verify_cases(small + [(g, [], []) for g, _, _ in small[:3]] + [([], [], [12, 27]), ([], [], [12]), ([2, 0, 30], [], [29, 0, 27])], with_binary=True)
    muts = []
    for g, c, p in small:
        if len(g) + len(c) + len(p) > 6000:
            continue          # the large translated proofs are verified unmutated only
        nm = 6 if quick else 60
        for m in mutations(rng, p, nm):
            muts.append((g, c, m))
        for m in mutations(rng, g, nm // 2):
            muts.append((m, c, p))
        for m in mutations(rng, c, nm // 2):
            muts.append((g, m, p))
        muts += [(c, g, p), (g, p, c), (g, c, [])]     # phase swaps, missing proof
    cases += verify_cases(muts)
    v.sample({'shipped_triples': len(small), 'mutated_triples': len(muts)})
    report(v, validate_stream(v, 'c05-verify', cases, bs=8), 'shipped / mutated triple')
