"""C09 - the tautology prover is a correct decision procedure."""
import itertools, random
import pi2v, funcs, gen, lem
from pi2v import tkey

N = funcs.NOT_DEFS
M = pi2v.MV


def formulas(max_conn, nvars, notations=True):
    """all propositional patterns with at most max_conn connectives (exhaustive, by size)"""
    by = {0: [M(i) for i in range(nvars)] + [N['bot']]}
    for n in range(1, max_conn + 1):
        cur = []
        for a in by[n - 1]:
            cur.append(N['neg'](a))
        for k in range(n):
            for a in by[k]:
                for b in by[n - 1 - k]:
                    cur.append(pi2v.IMP(a, b))
                    if notations:
                        cur.append(N['and'](a, b)); cur.append(N['or'](a, b))
        by[n] = cur
    return [f for n in sorted(by) for f in by[n]]


def rand_formula(rng, d, nvars):
    if d == 0 or rng.random() < 0.15:
        return rng.choice([M(i) for i in range(nvars)] + [N['bot'], N['top']])
    k = rng.randrange(5)
    if k == 0:
        return N['neg'](rand_formula(rng, d - 1, nvars))
    a, b = rand_formula(rng, d - 1, nvars), rand_formula(rng, d - 1, nvars)
    return [pi2v.IMP, N['and'], N['or'], N['equiv']][k - 1](a, b)


def jdepth(x):
    if isinstance(x, dict):
        return 1 + max([jdepth(v) for v in x.values()] + [0])
    if isinstance(x, list):
        return 1 + max([jdepth(v) for v in x] + [0])
    return 0


def run(v, tier):
    quick = tier == 'quick'
    rng = random.Random(pi2v.SEED)
    v.assumptions += ['truth tables over the metavariables of the formula (TLC); bottom = mu X0 . X0',
                      'returned proofs are replayed on the machine for a sample only (they are thousands of instructions long)']
    fs = formulas(2 if quick else 3, 2) + [rand_formula(rng, 3, 3) for _ in range(250 if quick else 2500)] + \
         [rand_formula(rng, 4, 3) for _ in range(30 if quick else 400)]
    # named shapes: many trivially true clauses, first clause re-derived, duplicated literals
    A, B_, C = M(0), M(1), M(2)
    lem_ = lambda x: N['or'](x, N['neg'](x))
    fs += [N['neg'](N['and'](lem_(A), N['and'](lem_(B_), lem_(C)))), N['and'](lem_(A), N['and'](lem_(B_), lem_(C))),
           N['and'](N['and'](A, N['and'](B_, C)), N['neg'](N['and'](A, N['and'](B_, C)))),
           N['neg'](N['and'](N['neg'](B_), N['and'](N['or'](N['neg'](A), N['neg'](B_)), N['and'](N['neg'](A), N['or'](A, B_)))))]
    seen, uniq = set(), []
    for f in fs:
        k = tkey(f)
        if k not in seen:
            seen.add(k); uniq.append(f)
    fs = uniq
    ntrace = 6 if quick else 30
    small = [i for i, f in enumerate(fs) if len(tkey(f)) < 1500]      # replay only proofs of small formulas (traces are huge)
    tr_idx = set(rng.sample(small, min(ntrace, len(small))))
    nst = 250 if quick else 1500
    st_idx = set(rng.sample(range(len(fs)), min(nst, len(fs))))
    reqs = [{'cmd': 'taut', 'pat': f, 'stages': i in st_idx, 'trace': i in tr_idx, 'budget': 60 if quick else 150} for i, f in enumerate(fs)]
    smallf = [f for f in fs if len(tkey(f)) < 700]
    for q in reqs:          # history: a fifth of the formulas are decided on a Tautology object that decided two others before
        if rng.random() < 0.2 and not q['trace']:
            q['warm'] = [rng.choice(smallf), rng.choice(smallf)]
    res = lem.run_applications(reqs)
    cases, traces = [], []
    exhausted = 0
    for q, r in zip(reqs, res):
        if any(x in r['out'] or x in (r.get('stage_error') or '') for x in ('RecursionError', 'MemoryError')) or r['out'].startswith('resource:'):
            exhausted += 1        # interpreter resource limit (deeply nested notation in ==), not a verdict of the procedure
            continue
        cases.append({'fam': 'prove', 'pat': q['pat'], 'out': 'ok' if r['out'] == 'ok' else 'raise', 'exc': r['out'], 'verdict': r['verdict'], 'conc': r['conc']})
        if r.get('stage_error'):
            cases.append({'fam': 'prove', 'pat': q['pat'], 'out': 'raise', 'exc': 'stage:' + r['stage_error'], 'verdict': 'none', 'conc': r['conc']})
        for st in r['stages']:
            if st['pf2'] is None:
                st['pf2'] = st['pf1']
            cases.append({'fam': 'stage', 'pat': q['pat'], 'st': st})
        if 'trace' in r:
            t = r['trace']
            if len(t['events']) <= (20000 if quick else 60000):
                traces.append({'phase': 'gamma', 'claims': [], 'events': t['events'], 'final': t['final'], 'files': t['files'], 'error': t['error'], 'pat': q['pat']})
    # clause lists for the resolution procedure: exhaustive small + random
    lits = [1, -1, 2, -2, 3, -3]
    clause_pool = [list(c) for n in (1, 2) for c in itertools.combinations(lits, n)] + [[1, 2, 3], [-1, -2, -3], [1, -2, 3], [-1, 2, -3], [1, -1, 2]]
    cls = [[list(x) for x in combo] for n in (1, 2, 3) for combo in itertools.permutations(clause_pool[:14 if quick else 21], n)]
    if quick:
        cls = rng.sample(cls, 1500)
    cls += [[rng.choice(clause_pool) for _ in range(rng.randrange(3, 6))] for _ in range(500 if quick else 8000)]
    cls += [[], [[-3, -1], [-1], [1]], [[2], [-1, 2], [1, -2], [-1]], [[-2, -1], [-2], [2]]]
    rreqs = [{'cmd': 'resolve', 'clauses': c} for c in cls]
    for q in rreqs:
        if rng.random() < 0.2:
            q['warm'] = [rng.choice(cls), rng.choice(cls)]
    rres = lem.run_applications(rreqs)
    loops = []
    for c, r in zip(cls, rres):
        if r.get('loop') and r['out'] == 'ok' and len(r['loop']['calls']) < 400:
            loops.append(r['loop'])
        if 'RecursionError' in r['out']:
            continue
        cases.append({'fam': 'resolve', 'clauses': c, 'out': 'ok' if r['out'] == 'ok' else 'raise', 'exc': r['out'], 'res': r['res'], 'conc': r['conc']})
    deep = [c for c in cases if jdepth(c) > 200]
    cases = [c for c in cases if jdepth(c) <= 200]
    v.cov['cases_skipped_json_nesting_limit'] = len(deep)
    # the saturation loop as a state machine (spec/Resolution.tla): (A) sound + complete on all small clause lists,
    # (C) the recorded sequence of resolvable() calls of the implementation is the sequence the machine visits
    RCFG = 'SPECIFICATION Spec\nCONSTANTS\n Lits <- Lits3\n MaxClauses = %d\n MaxLen = 2\n Clobber = FALSE\n Mode = "%s"\n%sCHECK_DEADLOCK FALSE\n'
    wd = pi2v.workdir('c09-resolution-model')
    res0 = pi2v.run_tlc('Resolution', RCFG % (3, 'model', 'INVARIANT Sound\nINVARIANT Complete\n'), wd, workers=8)
    if res0.invariant_violated:
        raise pi2v.MachineryError(f'spec/Resolution.tla violates {res0.invariant_violated}')
    pi2v.tlc_must_be_clean(res0, 'c09-resolution-model')
    v.add_tlc(res0)
    wd = pi2v.workdir('c09-resolution-trace')
    import os
    path = os.path.join(wd, 'loops.ndjson')
    pi2v.write_ndjson(path, loops)
    res1 = pi2v.run_tlc('Resolution', RCFG % (1, 'trace', ''), wd, env={'CASES': path}, workers=8)
    pi2v.tlc_must_be_clean(res1, 'c09-resolution-trace')
    if len(res1.dones) != len(loops):
        raise pi2v.MachineryError(f'c09-resolution-trace: {len(res1.dones)} of {len(loops)} loop traces finished')
    v.add_tlc(res1)
    v.cov['resolution_loop_traces'] = len(loops)
    v.cov['traces_validated_against_impl'] += len(loops)
    pi2v.log(f'[C09] resolution loop: model {res0.distinct} states; {len(loops)} loop traces validated, {len(res1.fails)} FAIL')
    for f in res1.fails:
        lp = loops[f[1] - 1]
        v.fail(f"loop-{f[3]}:{lp['clauses']}", f"saturation loop on {lp['clauses']}: the implementation's {f[2]}-th resolvable() call / verdict is not what the Resolution state machine does (clause {f[3]})",
               {'family': 'taut', 'case': lp})
    v.cov['formulas'] = len(fs)
    v.cov['formulas_skipped_python_recursion_limit'] = exhausted      # also: per-request CPU-time (60 s / 150 s) and address-space (6 GB) budgets
    v.cov['clause_lists'] = len(cls)
    v.sample({'pat': cases[5]['pat'], 'verdict': cases[5].get('verdict')})
    res, _ = funcs.run_blocks(v, 'C09', 'Trace_Taut', 'c09-trace', cases, '', bs=100)
    for f in res.fails:
        c = cases[f[1] - 1]
        what = tkey(c.get('clauses')) if c['fam'] == 'resolve' else tkey(c['pat'])
        extra = c.get('st', {}).get('stage', '')
        v.fail(f"{f[2]}:{c['fam']}{extra}:{what}", f"{c['fam']} {extra} on {what[:300]}: got {c.get('verdict', c.get('res'))} ({c.get('exc', '')}), clause {f[2]}",
               {'family': 'taut', 'case': c})
    # returned proofs replay on the machine and publish exactly the claimed conclusion
    vcmds = ['verify ' + ' '.join(str(len(x)) + ' ' + ' '.join(map(str, x)) for x in t['files']) for t in traces]
    for t, rr in zip(traces, pi2v.rust_run(vcmds)):
        t['final']['rust'] = rr['out']
    if traces:
        for tid, line, clause in gen.validate(v, 'C09', 'c09-replay', traces):
            t = traces[tid - 1]
            v.fail(f"replay-{clause}:{tkey(t['pat'])}", f"proof returned for {tkey(t['pat'])[:200]} does not replay: clause {clause} at event {line}", {'family': 'taut', 'case': {'pat': t['pat']}})
