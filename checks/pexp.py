"""Model-generated ProofExp expressions: TLC (MC_ProofExp, mode "spec") enumerates every DSL expression up to depth 2
over a small plug alphabet together with the conclusion the documented rules give it; the harness builds each with the real
ProofExp constructors and runs it under every interpreter stack; TLC (mode "trace") judges what came back."""
import json
import pi2v, funcs, lem
from pi2v import tkey

CFG = 'SPECIFICATION Spec\nCONSTANTS\n BlockSize = {bs}\nCHECK_DEADLOCK FALSE\n'


def recipe(r, axioms=()):
    k = r['k']
    if k == 'axiom':
        return ['axiom', [tkey(a) for a in axioms].index(tkey(r['t']))]
    if k == 'mp':
        return ['mp', recipe(r['a'], axioms), recipe(r['b'], axioms)]
    if k in ('dyn', 'inst'):
        return [k, recipe(r['a'], axioms), [[kv[0], kv[1]] for kv in r['d']]]
    if k == 'gen':
        return ['gen', recipe(r['a'], axioms), r['x']]
    return [k]


def enumerate_model(v, name, what='exps'):
    """the enumeration depends on the specification only: cached per spec text (like the term universes)"""
    import hashlib, os
    src = ''.join(open(os.path.join(pi2v.SPEC, f)).read() for f in ('MLCore.tla', 'MLMachine.tla', 'TraceBlocks.tla', 'ProofExp.tla', 'MC_ProofExp.tla'))
    cache = os.path.join(pi2v.BUILD, 'pexp-%s.json' % hashlib.sha256(src.encode()).hexdigest()[:16])
    if os.path.exists(cache):
        v.assumptions.append('MC_ProofExp enumeration reused from the per-spec-text cache (it does not depend on the repository)')
        return json.load(open(cache))[what]
    wd = pi2v.workdir(name)
    res = pi2v.run_tlc('MC_ProofExp', CFG.format(bs=50), wd, timeout=1200)
    pi2v.tlc_must_be_clean(res, name)
    if res.fails:
        raise pi2v.MachineryError(f'spec/ProofExpRun.tla: the compile theorem fails in the model itself: {res.fails[:3]}')
    v.add_tlc(res)
    exps, mods = [], []
    for line in res.out.splitlines():
        s = line.strip()
        if s.startswith('"P'):
            s = json.loads(s)
        if s.startswith('PEXP '):
            exps.append(json.loads(s[5:]))
        elif s.startswith('PMOD '):
            mods.append(json.loads(s[5:]))
    if not exps or not mods:
        raise pi2v.MachineryError('MC_ProofExp exported no expression / module')
    exps.sort(key=lambda e: json.dumps(e, sort_keys=True))
    mods.sort(key=lambda e: json.dumps(e, sort_keys=True))
    tmp = cache + '.%d' % os.getpid()
    json.dump({'exps': exps, 'mods': mods}, open(tmp, 'w'))
    os.replace(tmp, cache)
    return {'exps': exps, 'mods': mods}[what]


def run(v, tag, limit=None, rng=None):
    exps = enumerate_model(v, tag.lower() + '-pexp-model')
    if limit and len(exps) > limit:
        # keep every statically refused / run-time inapplicable one and a sample of the rest
        mps = [e for e in exps if e['ok'] and e['r']['k'] == 'mp' or e['und']]
        rest = [e for e in exps if not (e['ok'] and e['r']['k'] == 'mp' or e['und'])]
        rng.shuffle(mps)
        rng.shuffle(rest)
        exps = mps[:limit // 3] + rest[:limit - min(len(mps), limit // 3)]
    reqs = [{'cmd': 'expr', 'module': {'lib': False, 'proofs': [recipe(e['r'])]}, 'interps': True, 'traces': [False] if e['ok'] and e['run'] and not e['und'] else []} for e in exps]
    out = lem.run_applications(reqs)
    cases = []
    for e, r in zip(exps, out):
        c = {'r': e['r'], 'built': bool(r.get('built')), 'advertised': (r.get('advertised') or [pi2v.BOT])[0] if r.get('built') else pi2v.BOT,
             'interps': r.get('interps', []) if r.get('built') else [], 'hascalls': False, 'calls': []}
        if r.get('built') and 'trace' in r and r['trace']['error'] is None:
            ms = [ev['m'] for ev in r['trace']['events']]
            if 'into_proof_phase' in ms and ms[-1] == 'publish_proof':
                c['hascalls'], c['calls'] = True, ms[ms.index('into_proof_phase') + 1:-1]
        if any('RecursionError' in i['out'] for i in c['interps']):
            continue
        cases.append(c)
    v.cov['model_generated_expressions'] = len(cases)
    v.cov['model_generated_statically_refused'] = sum(1 for e in exps if not e['ok'])
    v.cov['model_generated_runtime_inapplicable'] = sum(1 for e in exps if e['ok'] and not e['run'])
    wd = pi2v.workdir(tag.lower() + '-pexp-judge')
    import os
    path = os.path.join(wd, 'cases.ndjson')
    pi2v.write_ndjson(path, cases)
    res = pi2v.run_tlc('Trace_ProofExp', CFG.format(bs=20), wd, env={'CASES': path}, timeout=1800)
    pi2v.tlc_must_be_clean(res, tag + '-pexp-judge')
    done = sum(d[2] for d in res.dones)
    if done != len(cases):
        raise pi2v.MachineryError(f'pexp-judge: TLC examined {done} of {len(cases)} cases')
    v.add_tlc(res)
    v.cov['traces_validated_against_impl'] += len(cases)
    pi2v.log(f'[{tag}] pexp: {len(cases)} model-generated expressions, {len(res.fails)} FAIL')
    return cases, res


def modules(v, rng, n, per=4):
    """module recipes whose proofs are model-generated expressions the documented rules make applicable (or whose
    substitution is undefined by them: the toolkit still generates those)"""
    exps = [e for e in enumerate_model(v, 'pexp-model') if e['ok'] and (e['run'] or e['und'])]
    rng.shuffle(exps)
    exps = exps[:n * per]
    return [{'lib': False, 'proofs': [recipe(e['r']) for e in exps[i:i + per]]} for i in range(0, len(exps), per)]


def run_modules(v, tag, limit=None, rng=None):
    """whole modules enumerated by the model with the three files it predicts: built and executed by the real toolkit
    (plain SerializingInterpreter), the files compared byte for byte by TLC, and verified by the real verify()"""
    mods = enumerate_model(v, tag.lower() + '-pexp-model', 'mods')
    if limit and len(mods) > limit:
        imp = [m for m in mods if m['m']['imports']]
        mods = imp + rng.sample([m for m in mods if not m['m']['imports']], max(0, limit - len(imp)))
    def spec_of(m):
        return {'lib': False, 'imports': [spec_of(x) for x in m['imports']], 'axioms': m['axioms'], 'proofs': [recipe(r, m['axioms']) for r in m['proofs']]}
    specs = [spec_of(m['m']) for m in mods]
    out = lem.run_applications([{'cmd': 'expr', 'module': sp, 'interps': False, 'traces': [False]} for sp in specs])
    cases, vcmds = [], []
    for m, r in zip(mods, out):
        built = bool(r.get('built')) and 'trace' in r
        files = r['trace']['files'] if built else [[], [], []]
        cases.append({'m': m['m'], 'built': built, 'error': (r['trace']['error'] or '') if built else (r.get('error') or 'refused'), 'files': files, 'rust': ''})
        vcmds.append('verify ' + ' '.join(str(len(x)) + ' ' + ' '.join(map(str, x)) for x in files))
    for c, rr in zip(cases, pi2v.rust_run(vcmds)):
        c['rust'] = rr['out']
    import os
    wd = pi2v.workdir(tag.lower() + '-pexp-modules')
    path = os.path.join(wd, 'cases.ndjson')
    pi2v.write_ndjson(path, cases)
    res = pi2v.run_tlc('Trace_ProofExp', CFG.format(bs=20), wd, env={'CASES': path}, timeout=1800)
    pi2v.tlc_must_be_clean(res, tag + '-pexp-modules')
    if sum(d[2] for d in res.dones) != len(cases):
        raise pi2v.MachineryError('pexp-modules: TLC did not examine every case')
    v.add_tlc(res)
    v.cov['model_generated_modules'] = len(cases)
    v.cov['traces_validated_against_impl'] += len(cases)
    pi2v.log(f'[{tag}] pexp: {len(cases)} model-generated modules (predicted files vs written files), {len(res.fails)} FAIL')
    return cases, res
