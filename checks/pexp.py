"""Model-generated ProofExp expressions: TLC (MC_ProofExp, mode "spec") enumerates every DSL expression up to depth 2
over a small plug alphabet together with the conclusion the documented rules give it; the harness builds each with the real
ProofExp constructors and runs it under every interpreter stack; TLC (mode "trace") judges what came back."""
import json
import pi2v, funcs, lem
from pi2v import tkey

CFG = 'SPECIFICATION Spec\nCONSTANTS\n BlockSize = {bs}\nCHECK_DEADLOCK FALSE\n'


def recipe(r):
    k = r['k']
    if k == 'mp':
        return ['mp', recipe(r['a']), recipe(r['b'])]
    if k in ('dyn', 'inst'):
        return [k, recipe(r['a']), [[kv[0], kv[1]] for kv in r['d']]]
    if k == 'gen':
        return ['gen', recipe(r['a']), r['x']]
    return [k]


def enumerate_model(v, name):
    """the enumeration depends on the specification only: cached per spec text (like the term universes)"""
    import hashlib, os
    src = ''.join(open(os.path.join(pi2v.SPEC, f)).read() for f in ('MLCore.tla', 'MLMachine.tla', 'TraceBlocks.tla', 'ProofExp.tla', 'MC_ProofExp.tla'))
    cache = os.path.join(pi2v.BUILD, 'pexp-%s.json' % hashlib.sha256(src.encode()).hexdigest()[:16])
    if os.path.exists(cache):
        v.assumptions.append('MC_ProofExp enumeration reused from the per-spec-text cache (it does not depend on the repository)')
        return json.load(open(cache))
    wd = pi2v.workdir(name)
    res = pi2v.run_tlc('MC_ProofExp', CFG.format(bs=50), wd, timeout=1200)
    pi2v.tlc_must_be_clean(res, name)
    if res.fails:
        raise pi2v.MachineryError(f'spec/ProofExpRun.tla: the compile theorem fails in the model itself: {res.fails[:3]}')
    v.add_tlc(res)
    exps = []
    for line in res.out.splitlines():
        if line.startswith('"PEXP ') or line.startswith('PEXP '):
            s = line.strip()
            if s.startswith('"'):
                s = json.loads(s)
            exps.append(json.loads(s[5:]))
    if not exps:
        raise pi2v.MachineryError('MC_ProofExp exported no expression')
    exps.sort(key=lambda e: json.dumps(e, sort_keys=True))
    tmp = cache + '.%d' % os.getpid()
    json.dump(exps, open(tmp, 'w'))
    os.replace(tmp, cache)
    return exps


def run(v, tag, limit=None, rng=None):
    exps = enumerate_model(v, tag.lower() + '-pexp-model')
    if limit and len(exps) > limit:
        # keep every statically refused / run-time inapplicable one and a sample of the rest
        mps = [e for e in exps if e['ok'] and e['r']['k'] == 'mp' or e['und']]
        rest = [e for e in exps if not (e['ok'] and e['r']['k'] == 'mp' or e['und'])]
        rng.shuffle(mps)
        rng.shuffle(rest)
        exps = mps[:limit // 3] + rest[:limit - min(len(mps), limit // 3)]
    reqs = [{'cmd': 'expr', 'module': {'lib': False, 'proofs': [recipe(e['r'])]}, 'interps': True, 'traces': [False] if e['ok'] and e['run'] and not e['und'] else []} for e in exps]
    out = lem.run_applications(reqs)
    cases = []
    for e, r in zip(exps, out):
        c = {'r': e['r'], 'built': bool(r.get('built')), 'advertised': (r.get('advertised') or [pi2v.BOT])[0] if r.get('built') else pi2v.BOT,
             'interps': r.get('interps', []) if r.get('built') else [], 'hascalls': False, 'calls': []}
        if r.get('built') and 'trace' in r and r['trace']['error'] is None:
            ms = [ev['m'] for ev in r['trace']['events']]
            if 'into_proof_phase' in ms and ms[-1] == 'publish_proof':
                c['hascalls'], c['calls'] = True, ms[ms.index('into_proof_phase') + 1:-1]
        if any('RecursionError' in i['out'] for i in c['interps']):
            continue
        cases.append(c)
    v.cov['model_generated_expressions'] = len(cases)
    v.cov['model_generated_statically_refused'] = sum(1 for e in exps if not e['ok'])
    v.cov['model_generated_runtime_inapplicable'] = sum(1 for e in exps if e['ok'] and not e['run'])
    wd = pi2v.workdir(tag.lower() + '-pexp-judge')
    import os
    path = os.path.join(wd, 'cases.ndjson')
    pi2v.write_ndjson(path, cases)
    res = pi2v.run_tlc('Trace_ProofExp', CFG.format(bs=20), wd, env={'CASES': path}, timeout=1800)
    pi2v.tlc_must_be_clean(res, tag + '-pexp-judge')
    done = sum(d[2] for d in res.dones)
    if done != len(cases):
        raise pi2v.MachineryError(f'pexp-judge: TLC examined {done} of {len(cases)} cases')
    v.add_tlc(res)
    v.cov['traces_validated_against_impl'] += len(cases)
    pi2v.log(f'[{tag}] pexp: {len(cases)} model-generated expressions, {len(res.fails)} FAIL')
    return cases, res


def modules(v, rng, n, per=4):
    """module recipes whose proofs are model-generated expressions the documented rules make applicable (or whose
    substitution is undefined by them: the toolkit still generates those)"""
    exps = [e for e in enumerate_model(v, 'pexp-model') if e['ok'] and (e['run'] or e['und'])]
    rng.shuffle(exps)
    exps = exps[:n * per]
    return [{'lib': False, 'proofs': [recipe(e['r']) for e in exps[i:i + per]]} for i in range(0, len(exps), per)]
