"""Applications of library entry points to generated arguments (shared by C02, C03, C08, C10)."""
import random
import pi2v, funcs, gen
from pi2v import py_run, tkey

SVBASE = 100


def subst_schema(t, sg):
    k = t['t']
    if k == 'mv' and t['i'] >= SVBASE:
        return sg[t['i']]
    out = dict(t)
    for f in ('l', 'r', 'p', 'g'):
        if f in t and isinstance(t[f], dict):
            out[f] = subst_schema(t[f], sg)
    if k == 'inst':
        out['d'] = [[kk, subst_schema(vv, sg)] for kk, vv in t['d']]
    return out


def arg_pool(rng, notation=True):
    N = funcs.NOT_DEFS
    M = pi2v.MV
    base = [M(0), M(1), M(2), pi2v.EV(0), pi2v.SV(1), pi2v.SYM(0), pi2v.BOT, N['bot'], N['top'], pi2v.IMP(M(0), M(1)), pi2v.IMP(M(1), M(0)),
            pi2v.EX(0, pi2v.EV(0)), pi2v.EX(1, pi2v.IMP(pi2v.EV(1), M(0))), pi2v.MU(0, pi2v.SV(0)), pi2v.APP(pi2v.SYM(0), pi2v.EV(1)),
            N['neg'](M(0)), N['and'](M(1), pi2v.EV(0)), N['or'](M(2), M(2)), N['neg'](N['neg'](M(1))), pi2v.ES(M(0), 0, pi2v.EV(1)),
            M(1, [0], [], [], [], []), N['equiv'](M(0), pi2v.SV(0)), pi2v.IMP(N['bot'], M(2))]
    return base


def cost_table():
    import json, os
    return json.load(open(os.path.join(pi2v.VERIF, 'harness/py/lemma_cost.json')))


def applications(rng, per_entry, entries=None, max_events=None, interps=False, traces=(False, True)):
    """[(entry, request, expected-binding)] generated from the docstring schemas (premises by construction)"""
    sch = py_run([{'cmd': 'schemas'}], script='genharness.py')[0]
    pool = arg_pool(rng)
    reqs = []
    for name in sorted(sch):
        if entries and name not in entries:
            continue
        if max_events is not None and cost_table().get(name, {'events': 10 ** 9})['events'] > max_events:
            continue
        s = sch[name]
        for k in range(per_entry):
            if k == 0:      # identity-like: schema variable j := metavariable j (collides with the lemma's own ids)
                sg = {SVBASE + j: pi2v.MV(j % 3) for j in range(s['nvars'])}
            elif k == 1:    # swapped / aliasing metavariables
                sg = {SVBASE + j: pi2v.MV((j + 1) % 3) for j in range(s['nvars'])}
            else:
                sg = {SVBASE + j: rng.choice(pool) for j in range(s['nvars'])}
            args, pi = [], 0
            for kind, pname in zip(s['kinds'], s['names']):
                if kind == 'thunk':
                    args.append({'premise': subst_schema(s['prem'][pi], sg)}); pi += 1
                else:
                    args.append({'pattern': sg[SVBASE + s['pmap'][pname]]})
            reqs.append({'cmd': 'lemma', 'entry': name, 'args': args, 'interps': interps, 'traces': list(traces), 'nest': k % 3})
    return reqs, sch


def run_applications(reqs, nproc=12):
    """the harness is CPU-bound: split the requests over several harness processes"""
    from concurrent.futures import ThreadPoolExecutor
    chunks = [reqs[i::nproc] for i in range(nproc)]
    with ThreadPoolExecutor(nproc) as ex:
        outs = list(ex.map(lambda c: py_run(c, script='genharness.py') if c else [], chunks))
    res = [None] * len(reqs)
    for i, o in enumerate(outs):
        res[i::nproc] = o
    return res


def schema_cases(reqs, results):
    cases = []
    for q, r in zip(reqs, results):
        if not r.get('built') or 'schema' not in r:
            continue
        s = r['schema']
        cases.append({'fam': 'schema', 'entry': r['entry'], 'prem_schema': s['prem'], 'conc_schema': s['conc'], 'bind': s['bind'],
                      'premises': [a['premise'] for a in q['args'] if 'premise' in a], 'conc': r['conc'],
                      'methods': sorted({e['m'] for k in ('trace', 'trace_opt') if k in r for e in r[k]['events']}),
                      'doc': s['doc']})
    return cases


def interp_cases(reqs, results):
    cases = []
    for q, r in zip(reqs, results):
        if r.get('built'):
            cases.append({'fam': 'interps', 'entry': r['entry'], 'args': q['args'], 'advertised': [r['conc']], 'interps': r['interps']})
    return cases


def module_traces(reqs, results):
    """Trace_Gen inputs for both optimise settings of every built application (with the Rust verdict)."""
    traces, vcmds = [], []
    for q, r in zip(reqs, results):
        if not r.get('built'):
            continue
        for key, opt in (('trace', False), ('trace_opt', True)):
            if key not in r:
                continue
            t = r[key]
            traces.append({'phase': 'gamma', 'claims': [], 'events': t['events'], 'final': t['final'], 'name': r['entry'], 'optimize': opt,
                           'error': t['error'], 'files': t['files'], 'args': q['args']})
            vcmds.append('verify ' + ' '.join(str(len(x)) + ' ' + ' '.join(map(str, x)) for x in t['files']))
    for t, rr in zip(traces, pi2v.rust_run(vcmds)):
        t['final']['rust'] = rr['out']
    return traces
