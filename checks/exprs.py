"""Proof-expression recipes (DSL edge cases named by C08, import graphs and big symbol sets for C03)."""
import random
import pi2v, funcs

M = pi2v.MV
N = funcs.NOT_DEFS
X0, X1, S0, S1 = pi2v.EV(0), pi2v.EV(1), pi2v.SYM(0), pi2v.SYM(1)
REV_NOT = pi2v.NINST(pi2v.IMP(M(0), M(1)), [(1, S1), (0, S0)])      # notation node with descending keys


def edge_recipes():
    P1, P2, P3, Q = ['prop1'], ['prop2'], ['prop3'], ['quant']
    r = [
        ['dyn', P1, []],                                   # empty instantiation
        ['dyn', P1, [[0, M(1)], [1, M(0)]]],               # aliasing swap
        ['dyn', P1, [[1, M(0)], [0, M(1)]]],               # same, descending key order
        ['dyn', P2, [[5, X0]]],                            # absent metavariable
        ['dyn', P1, [[0, M(0)]]],                          # identity plug (no-op)
        ['dyn', P1, [[0, M(0)], [1, M(1)]]],
        ['dyn', P1, [[0, REV_NOT]]],                       # plug is a notation node with descending keys
        ['dyn', P1, [[0, N['neg'](X0)], [1, N['and'](X1, M(2))]]],
        ['dyn', ['dyn', P1, [[0, M(1)]]], [[1, X0]]],      # nested instantiation
        ['inst', P1, []],                                  # the static rule with an empty map
        ['inst', P1, [[0, X0]]],                           # the static rule with a non-empty map
        ['mp', ['dyn', P1, [[0, pi2v.IMP(M(0), pi2v.IMP(M(1), M(0)))], [1, M(2)]]], P1],
        ['mp', ['dyn', P1, [[0, M(0)], [1, M(1)]]], ['dyn', P1, [[5, X0]]]],   # no-op instantiation consumed by a rule
        ['mp', ['dyn', P2, [[1, pi2v.IMP(M(0), M(0))], [2, M(0)]]], ['dyn', P1, [[1, pi2v.IMP(M(0), M(0))]]]],
        # a no-op instantiation (absent metavariable / identity plug) whose result is consumed by a further rule
        ['mp', ['dyn', ['dyn', P1, [[0, pi2v.IMP(M(0), pi2v.IMP(M(1), M(0)))], [1, M(2)]]], [[5, X0]]], P1],
        ['mp', ['dyn', ['dyn', P1, [[0, pi2v.IMP(M(0), pi2v.IMP(M(1), M(0)))], [1, M(2)]]], [[2, M(2)]]], P1],
        ['mp', ['dyn', P1, [[0, pi2v.IMP(M(0), pi2v.IMP(M(1), M(0)))], [1, M(2)]]], ['dyn', P1, [[7, N['neg'](X1)]]]],
        ['gen', P1, 0], ['gen', ['dyn', P1, [[0, X1]]], 0], ['gen', ['dyn', P1, [[0, X0], [1, X1]]], 1],
        # a mu whose bound variable is re-bound by an inner mu (bot = mu X0 . X0) in a negatively checked position
        ['dyn', P1, [[0, pi2v.MU(0, pi2v.IMP(N['neg'](S0), pi2v.SV(0)))]]],
        ['dyn', P1, [[1, pi2v.MU(0, pi2v.IMP(pi2v.IMP(pi2v.MU(0, pi2v.IMP(S1, pi2v.SV(0))), S0), pi2v.SV(0)))]]],
        # generalisation that needs the freshness constraints of the plugs (variable ids 0 and 1)
        ['gen', ['dyn', P1, [[0, M(0, [0])], [1, M(1, [0])]]], 0], ['gen', ['dyn', P1, [[0, M(0, [1])], [1, M(1, [1, 0])]]], 1],
        ['gen', ['dyn', P1, [[0, M(2, [0], [0])], [1, M(1, [0], [], [0])]]], 0],
        Q, ['dyn', Q, [[0, X1]]], ['dyn', Q, [[0, pi2v.EX(1, pi2v.EV(0))]]],
        ['lemma', 'imp_refl', [{'pattern': REV_NOT}]],
        ['lemma', 'imp_transitivity', [{'thunk': ['dyn', P1, [[0, M(0)], [1, M(0)]]]}, {'thunk': ['lemma', 'imp_refl', [{'pattern': pi2v.IMP(M(0), M(0))}]]}]],
        ['lemma', 'top_intro', []], ['lemma', 'bot_elim', [{'pattern': X0}]],
    ]
    return r


def edge_modules(rng, n_multi):
    rs = edge_recipes()
    mods = [{'proofs': [r]} for r in rs]
    for _ in range(n_multi):        # several proof expressions in one module (published proofs stay on the tracker stack)
        k = rng.randrange(2, 4)
        mods.append({'proofs': [rng.choice(rs) for _ in range(k)]})
    # with axioms
    ax = [pi2v.IMP(S0, S1), pi2v.IMP(S1, pi2v.SYM(2)), N['neg'](N['neg'](S0))]
    mods.append({'axioms': ax, 'proofs': [['lemma', 'imp_transitivity', [{'thunk': ['axiom', 0]}, {'thunk': ['axiom', 1]}]], ['axiom', 2]]})
    mods.append({'axioms': ax, 'proofs': [['axiom', 1], ['axiom', 0], ['lemma', 'dne_l_i', [{'thunk': ['lemma', 'imp_provable', [{'pattern': N['neg'](N['neg'](S1))}, {'thunk': ['axiom', 0]}]]}]]]})
    # axioms with pending substitutions whose PLUG mentions a metavariable; instantiate only that one
    pend = [pi2v.IMP(pi2v.ES(M(0), 0, M(1)), M(1)), pi2v.IMP(M(1), pi2v.SS(M(0), 1, pi2v.IMP(M(1), M(2)))),
            pi2v.IMP(pi2v.ES(pi2v.SS(M(0), 0, M(2)), 1, M(1)), M(0))]
    mods.append({'axioms': pend, 'proofs': [['dyn', ['axiom', 0], [[1, X1]]], ['dyn', ['axiom', 1], [[2, S0]]], ['dyn', ['axiom', 1], [[1, pi2v.SV(0)], [2, M(0)]]],
                                            ['dyn', ['axiom', 2], [[2, pi2v.SV(1)]]], ['dyn', ['axiom', 2], [[1, X0], [0, pi2v.IMP(X1, pi2v.SV(0))]]]]})
    # the body re-binds the substituted variable and the plug mentions it free: a legal no-op (shadowing comes before capture)
    shadow_e, shadow_s = pi2v.EX(0, pi2v.APP(S0, X0)), pi2v.MU(1, pi2v.APP(S0, pi2v.SV(1)))
    mods.append({'axioms': pend, 'proofs': [['dyn', ['axiom', 0], [[0, shadow_e], [1, pi2v.APP(S1, X0)]]],
                                            ['dyn', ['dyn', ['axiom', 0], [[1, pi2v.APP(S1, X0)]]], [[0, shadow_e]]],
                                            ['dyn', ['axiom', 1], [[0, shadow_s], [1, pi2v.SV(1)], [2, S0]]],
                                            ['dyn', ['axiom', 0], [[0, pi2v.IMP(shadow_e, pi2v.EX(1, X1))], [1, X0]]]]})
    mods.append({'axioms': pend, 'proofs': [['dyn', ['axiom', 0], [[0, pi2v.IMP(X0, X0)], [1, X1]]], ['dyn', ['dyn', ['axiom', 0], [[1, M(2)]]], [[2, X1]]]]})
    return mods


def graph_modules(rng):
    """import graphs: same class imported twice with different axioms, shared axioms, nesting"""
    A = lambda i, j: pi2v.IMP(pi2v.SYM(i), pi2v.SYM(j))
    leaf1 = {'lib': False, 'axioms': [A(0, 1), A(1, 2)]}
    leaf2 = {'lib': False, 'axioms': [A(3, 4)]}
    leaf3 = {'lib': False, 'axioms': [A(0, 1), A(5, 6)]}      # shares an axiom with leaf1
    mods = [
        {'lib': False, 'imports': [leaf1, leaf2], 'axioms': [A(7, 8)], 'proofs': [['axiom', 0]]},
        {'lib': False, 'imports': [leaf1, leaf3], 'axioms': [A(2, 0)], 'proofs': [['axiom', 0]]},
        {'lib': False, 'imports': [{'lib': False, 'imports': [leaf2], 'axioms': [A(9, 9)]}, leaf1], 'axioms': [A(1, 0), A(1, 0)], 'raw_axioms': True,
         'proofs': [['axiom', 0]]},
        {'lib': True, 'imports': [leaf3, leaf2], 'axioms': [A(0, 1), A(1, 2)],
         'proofs': [['lemma', 'imp_transitivity', [{'thunk': ['axiom', 0]}, {'thunk': ['axiom', 1]}]]]},
        {'lib': False, 'imports': [leaf1, leaf1], 'axioms': [], 'proofs': [], 'extra_claims': []},
    ]
    return mods


def big_modules(nsyms_list):
    """many symbols: numbering must stay a first-use injection (or the module is refused)"""
    mods = []
    for n in nsyms_list:
        syms = [pi2v.SYM(i) for i in range(n)]
        ax = [pi2v.IMP(syms[i], syms[i + 1]) for i in range(0, n - 1, 2)]
        # claims / proofs reuse OLD symbols after many others have been numbered
        mods.append({'lib': False, 'axioms': ax, 'proofs': [['axiom', 0], ['axiom', len(ax) - 1], ['axiom', 1]]})
    # a chain of axioms whose every sub-pattern is used twice: the optimised run has more memoisation candidates than the
    # checker's memory has slots next to the published axioms (the last slot, 255, must still be addressable)
    for k in ([90] if len(nsyms_list) == 1 else [86, 90, 120]):
        s = [pi2v.IMP(pi2v.EV(i), pi2v.SV(i)) for i in range(k + 1)]
        b = [pi2v.IMP(s[i], s[i + 1]) for i in range(k)]
        mods.append({'lib': False, 'axioms': b, 'proofs': [['axiom', k - 1]]})
    return mods
