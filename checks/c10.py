"""C10 - every derived rule proves exactly its advertised (docstring) schema."""
import random
import pi2v, funcs, gen, lem
from pi2v import tkey


def run(v, tier):
    quick = tier == 'quick'
    rng = random.Random(pi2v.SEED)
    v.assumptions += ['the advertised schema is the docstring, parsed by a 60-line parser in harness/py/lemmas.py (trusted); entry points without a formal docstring are not covered',
                      'pattern parameters are associated to schema variables by name (pat1..3 = a,b,c; pat per table)']
    reqs, sch = lem.applications(rng, 3 if quick else 8, max_events=1500 if quick else 8000)
    v.cov['entry_points_applied'] = len({q['entry'] for q in reqs})
    results = lem.run_applications(reqs)
    built = [r for r in results if r.get('built')]
    v.cov['entry_points_with_schema'] = len(sch)
    v.cov['applications'] = len(reqs)
    v.cov['applications_built'] = len(built)
    notbuilt = [(q, r) for q, r in zip(reqs, results) if not r.get('built')]
    cases = lem.schema_cases(reqs, results)
    v.sample({'entry': cases[0]['entry'], 'doc': cases[0]['doc'], 'premises': cases[0]['premises'], 'conc': cases[0]['conc']})
    res, _ = funcs.run_blocks(v, 'C10', 'Trace_Lemma', 'c10-schema', cases, '', bs=40)
    for f in res.fails:
        c = cases[f[1] - 1]
        if f[2] == 'premise-shape':
            raise pi2v.MachineryError(f"generated premises do not match the parsed docstring schema of {c['entry']}")
        v.fail(f"{f[2]}:{c['entry']}:{tkey(c['bind'])}:{tkey(c['premises'])}",
               f"{c['entry']} ({c['doc'][:80]!r}) with {tkey(c['bind'])[:200]} premises {tkey(c['premises'])[:200]} concluded {tkey(c['conc'])[:200]}: clause {f[2]}",
               {'family': 'lemma', 'case': c})
    # the toolkit refusing to build an application whose premises have the documented shape
    for q, r in notbuilt:
        v.fail(f"refused:{q['entry']}:{tkey(q['args'])}", f"{q['entry']} refused arguments of the documented shape: {r.get('error')}", {'family': 'lemma', 'case': q})
    # the proofs replay on the machine (both optimise settings) and publish exactly the advertised conclusion
    traces = lem.module_traces(reqs, results)
    for tid, line, clause in gen.validate(v, 'C10', 'c10-replay', traces):
        t = traces[tid - 1]
        v.fail(f"replay-{clause}:{t['name']}:{t['optimize']}:{tkey(t['args'])}", f"{t['name']} optimize={t['optimize']} args {tkey(t['args'])[:200]}: clause {clause} at event {line}",
               {'family': 'lemma', 'case': {'entry': t['name'], 'args': t['args'], 'optimize': t['optimize']}})
