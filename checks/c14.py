"""C14 - deserialising a serialised proof replays it; malformed input is reported."""
import random
import pi2v, funcs, gen, machine
from pi2v import py_run, tkey


def first_op(bs):
    rev = {v: k for k, v in machine.OPS.items()}
    ins, bad = machine.decode_stream(list(bs))
    return sorted({i['op'] for i, _ in ins})


def run(v, tier):
    quick = tier == 'quick'
    rng = random.Random(pi2v.SEED)
    v.assumptions += ['symbols: the deserialiser names symbol id n "n"; compared without renaming (first-use numbering of generated streams)',
                      'PyPublishKeepsTop: published terms stay on the tracker stack',
                      'byte strings the machine itself rejects, and opcodes the serialiser cannot emit (Existence, Substitution, unimplemented), are not judged']
    # byte strings = what the REAL serializer emitted for TLC-generated call sequences (C04 model) ...
    seqs = gen.explore(v, 'C14', 'c14-model', 3 if quick else 4)
    traces = gen.replay_sequences(seqs)
    inputs, orig = {}, {}

    def rename(t, sm):       # tracker symbols (bridge numbers) -> wire ids, as logged by the serializer itself
        if t['t'] == 'sym':
            return dict(t, i=sm.get(t['i'], t['i']))
        out = dict(t)
        for f in ('l', 'r', 'p', 'g'):
            if f in t and isinstance(t[f], dict):
                out[f] = rename(t[f], sm)
        if t['t'] == 'inst':
            out['d'] = [[k, rename(x, sm)] for k, x in t['d']]
        return out
    for t in traces:
        bs = [b for e in t['events'] if e['out'] == 'ok' for b in e['bytes']]
        if bs and t['predicted_good'] and not any(e['m'].startswith('into_') for e in t['events']):
            key = (t['phase'], tuple(bs))
            inputs[key] = gen.model_claims() if t['phase'] == 'proof' else []
            sm = {b: i for e in t['events'] for b, i in e['syms']}
            last = t['events'][-1]
            npub = sum(1 for e in t['events'] if e['m'].startswith('publish'))
            if last['top']['k'] in ('pat', 'prf'):
                orig[key] = {'len': last['len'], 'top': {'k': last['top']['k'], 'p': rename(last['top']['p'], sm)}, 'has': True}
    # ... and for whole shipped modules, per phase (claims of the proof phase = the module's claims)
    for t in gen.module_traces(['propositional', 'substitution', 'small_theory'] + ([] if quick else ['kore_lemmas', 'definedness']), optimize_opts=(False, True)):
        for ph, bs in zip(('gamma', 'claim', 'proof'), t['files']):
            if bs:
                inputs[(ph, tuple(bs))] = t['final']['claims'] if ph == 'proof' else []
    keys = sorted(inputs, key=lambda k: (k[0], len(k[1]), k[1]))
    if quick and len(keys) > 1500:
        keys = rng.sample(keys, 1500)
    reqs = [{'cmd': 'deser', 'phase': ph, 'bytes': list(bs), 'claims': inputs[(ph, bs)]} for ph, bs in keys]
    # malformed variants: truncation at every offset of short streams, zero / unknown bytes spliced in
    mal = []
    for ph, bs in rng.sample(keys, min(len(keys), 150 if quick else 1500)):
        bs = list(bs)[:40]
        for cut in range(1, len(bs)):
            mal.append({'cmd': 'deser', 'phase': ph, 'bytes': bs[:cut], 'claims': inputs[(ph, tuple(keys[0][1]))] if False else (gen.model_claims() if ph == 'proof' else [])})
        # zero, reserved and unknown bytes; valid opcodes with the high bit set (only 137 = CleanMetaVar is one)
        for b in (0, 1, 31, 200, 255, 128 + rng.choice([2, 3, 4, 5, 6, 12, 13, 21, 27, 28, 30]), 128 + rng.randrange(10, 31)):
            k = rng.randrange(len(bs) + 1)
            mal.append({'cmd': 'deser', 'phase': ph, 'bytes': bs[:k] + [b] + bs[k:], 'claims': gen.model_claims() if ph == 'proof' else []})
        # ... and an opcode of the stream itself replaced by its high-bit variant
        k = rng.randrange(len(bs))
        if bs[k] != 9:
            mal.append({'cmd': 'deser', 'phase': ph, 'bytes': bs[:k] + [bs[k] | 128] + bs[k + 1:], 'claims': gen.model_claims() if ph == 'proof' else []})
    if quick and len(mal) > 5000:
        mal = rng.sample(mal, 5000)
    allreq = reqs + mal
    import lem
    res = lem.run_applications(allreq)
    none = {'len': 0, 'top': {'k': 'none', 'p': pi2v.EV(0)}, 'has': False}
    cases = [{'phase': q['phase'], 'bytes': q['bytes'], 'claims': q['claims'], 'out': 'ok' if r['out'] == 'ok' else 'raise',
              'exc': r['out'], 'rebytes': r['rebytes'], 'final': r['final'],
              'orig': orig.get((q['phase'], tuple(q['bytes'])), none) if k < len(reqs) else none,
              'produced': k < len(reqs)} for k, (q, r) in enumerate(zip(allreq, res))]
    v.cov['valid_streams'] = len(reqs)
    v.cov['malformed_variants'] = len(mal)
    v.sample({'phase': cases[0]['phase'], 'bytes': cases[0]['bytes'], 'out': cases[0]['exc']})
    res, _ = funcs.run_blocks(v, 'C14', 'Trace_Deser', 'c14-trace', cases, '', bs=100)
    for f in res.fails:
        c = cases[f[1] - 1]
        ops = first_op(c['bytes'])
        # the instruction at which the deserialiser stops conforming: the one after the re-emitted prefix
        n = 0
        while n < len(c['rebytes']) and n < len(c['bytes']) and c['rebytes'][n] == c['bytes'][n]:
            n += 1
        rev = {v_: k for k, v_ in machine.OPS.items()}
        at = rev.get(c['bytes'][n], 'byte%d' % c['bytes'][n]) if n < len(c['bytes']) else 'end'
        if f[2] == 'malformed-accepted':
            at = 'zero-byte' if 0 in c['bytes'] else at
        key = f"{f[2]}:{c['phase']}:{at}:{c['bytes']}"
        v.fail(key, f"phase {c['phase']} bytes {c['bytes'][:40]}: deserialiser {c['exc']}, clause {f[2]} at {at}", {'family': 'deser', 'case': c})
