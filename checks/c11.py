"""C11 - substitution and instantiation obey their algebra."""
import itertools, random
import pi2v, funcs
from pi2v import prefix, rust_run, py_run, tkey
from c06 import set_mvs

PLUGS = [pi2v.EX(0, pi2v.EV(0)), pi2v.IMP(pi2v.MU(1, pi2v.SV(1)), pi2v.SV(0)), pi2v.EV(0), pi2v.EV(1), pi2v.SV(0), pi2v.SV(1), pi2v.MV(1), pi2v.MV(0), pi2v.IMP(pi2v.SV(0), pi2v.EV(1)),
         pi2v.EX(0, pi2v.EV(1)), pi2v.MU(1, pi2v.SV(0)), pi2v.MV(1, [0], [1]), pi2v.ES(pi2v.MV(2), 1, pi2v.EV(0))]


def has_inst(t):
    k = t['t']
    if k == 'inst':
        return True
    return any(has_inst(t[f]) for f in ('l', 'r', 'p', 'g') if f in t and isinstance(t[f], dict))


def subst_cases(impl, terms, rng, nplug):
    cmds, meta = [], []
    for p in terms:
        for fn in ('esubst', 'ssubst'):
            for x in (0, 1):
                for g in rng.sample(PLUGS, nplug):
                    meta.append((fn, p, x, g))
                    if impl == 'rust':
                        cmds.append(f"fn apply_{fn} {x} {prefix(p)} {prefix(g)}")
                    else:
                        cmds.append({'fn': 'apply_' + fn, 'p': p, 'x': x, 'g': g})
    res = rust_run(cmds) if impl == 'rust' else py_run(cmds)
    return [{'impl': impl, 'fn': fn, 'p': p, 'x': x, 'g': g, 'out': 'ok' if r['out'] == 'ok' else 'fail',
             'res': r.get('res') or pi2v.EV(0)} for (fn, p, x, g), r in zip(meta, res)]


def deltas(rng, p, n):
    ids = sorted(set_mvs(p)) or [0]
    out = []
    for _ in range(n):
        ks = rng.sample([0, 1, 2], rng.randrange(1, 3))
        if rng.random() < 0.7 and ids:
            ks = list(dict.fromkeys([rng.choice(ids)] + ks))[:2]
        out.append([[k, rng.choice(PLUGS)] for k in ks])
    return out


def adversarial_deltas(p):
    """metavariable-to-metavariable maps (aliasing, swaps, maps onto the keys of a notation node)"""
    M = pi2v.MV
    out = [[[i, M(j)]] for i in (0, 1, 2) for j in (0, 1, 2) if i != j]
    out += [[[0, M(1)], [1, M(0)]], [[1, M(0)], [0, M(1)]], [[0, pi2v.IMP(M(0), M(1))], [1, M(2)]], [[2, M(0)], [0, pi2v.EV(1)]]]
    return out


def inst_cases(impl, terms, rng, n):
    cmds, meta = [], []
    for p in terms:
        for d in deltas(rng, p, n) + (adversarial_deltas(p) if (has_inst(p) or rng.random() < 0.15) else []):
            ids = [k for k, _ in d]; plugs = [g for _, g in d]
            meta.append((p, ids, plugs))
            if impl == 'rust':
                cmds.append(f"fn instantiate {len(ids)} {' '.join(map(str, ids))} {prefix(p)} " + ' '.join(prefix(g) for g in plugs))
            else:
                cmds.append({'fn': 'instantiate', 'p': p, 'd': d})
    res = rust_run(cmds) if impl == 'rust' else py_run(cmds)
    return [{'impl': impl, 'fn': 'inst', 'p': p, 'ids': ids, 'plugs': plugs, 'out': 'ok' if r['out'] == 'ok' else 'fail',
             'res': r.get('res') or pi2v.EV(0)} for (p, ids, plugs), r in zip(meta, res)]


def compose_cases(impl, terms, rng, n):
    """inst(inst(p, d1), d2) versus inst(p, d1;d2), all computed by the implementation itself."""
    def call(reqs):
        if impl == 'rust':
            return rust_run([f"fn instantiate {len(d)} {' '.join(str(k) for k, _ in d)} {prefix(p)} " +
                             ' '.join(prefix(g) for _, g in d) for p, d in reqs])
        return py_run([{'fn': 'instantiate', 'p': p, 'd': d} for p, d in reqs])
    exps = []
    for p in terms:
        for _ in range(n):
            d1 = deltas(rng, p, 1)[0]; d2 = deltas(rng, p, 1)[0]
            exps.append((p, d1, d2))
    # step 1: r1 = inst(p, d1) and the composed values inst(v, d2)
    r1 = call([(p, d1) for p, d1, _ in exps])
    flat = [(g, d2) for _, d1, d2 in exps for _, g in d1]
    rv = call(flat)
    it = iter(rv)
    reqs2, reqsc, okmask = [], [], []
    for (p, d1, d2), a in zip(exps, r1):
        vals = [next(it) for _ in d1]
        ok = a['out'] == 'ok' and all(x['out'] == 'ok' for x in vals)
        okmask.append(ok)
        if not ok:
            continue
        dc = [[k, x['res']] for (k, _), x in zip(d1, vals)] + [[k, g] for k, g in d2 if k not in [k1 for k1, _ in d1]]
        if impl == 'rust' and any(has_inst(g) for _, g in dc):
            okmask[-1] = False
            continue
        reqs2.append((a['res'], d2)); reqsc.append((p, dc))
    r12 = call(reqs2); rc = call(reqsc)
    out, j = [], 0
    for (p, d1, d2), ok in zip(exps, okmask):
        if not ok:
            continue
        a, b = r12[j], rc[j]; j += 1
        good = a['out'] == 'ok' and b['out'] == 'ok'
        out.append({'impl': impl, 'fn': 'compose', 'p': p, 'd1': d1, 'd2': d2, 'out': 'ok' if good else 'fail',
                    'r12': a.get('res') or pi2v.EV(0), 'rc': b.get('res') or pi2v.EV(0)})
    return out


def report(v, res, cases, clauses):
    for f in res.fails:
        c = cases[f[1] - 1]
        if f[2] not in clauses:
            continue
        arg = {k: c[k] for k in ('x', 'g', 'ids', 'plugs', 'd1', 'd2') if k in c}
        key = f"{f[2]}:{c['impl']}:{c['fn']}:{tkey(c['p'])}:{tkey(arg)}"
        v.fail(key, f"{c['impl']} {c['fn']} on {tkey(c['p'])[:200]} with {tkey(arg)[:200]}: out={c['out']}, clause {f[2]}",
               {'family': 'subst', 'case': c})


def run(v, tier):
    quick = tier == 'quick'
    rng = random.Random(pi2v.SEED)
    u = pi2v.universes()
    v.assumptions += ['where the reference substitution is undefined (capture) or a constraint is violated the property is silent: Python outcome not judged',
                      'results compared after notation expansion and modulo pending substitutions on variables declared fresh']
    res, n = funcs.run_blocks(v, 'C11', 'Trace_Subst', 'c11-spec', None, ' Mode = "spec"', bs=20, needs_sem=True)
    if res.fails:
        raise pi2v.MachineryError(f'the specification violates its own substitution theorems: {res.fails[:3]}')
    v.cov['spec_theorem_cases'] = n
    g = funcs.Gen(pi2v.SEED, ids=(0, 1, 2))
    gn = funcs.Gen(pi2v.SEED + 5, ids=(0, 1), notation=True)
    mterms = u['U1'] + rng.sample(u['U2S'], 400 if quick else 3115) + [g.term(4) for _ in range(300 if quick else 1500)]
    nterms = [x['p'] for x in u['NU1']] + rng.sample([x['p'] for x in u['NU2S']], 200 if quick else 836) + \
             [gn.term(3) for _ in range(300 if quick else 1200)]
    allc = []
    for impl, terms in (('rust', mterms), ('py', mterms + nterms)):
        cs = subst_cases(impl, terms, rng, 2 if quick else 4) + inst_cases(impl, terms, rng, 3 if quick else 5) + \
             compose_cases(impl, terms, rng, 1 if quick else 2)
        v.sample({k: cs[11][k] for k in ('impl', 'fn', 'p', 'x', 'g', 'res')})
        allc += cs
    res, _ = funcs.run_blocks(v, 'C11', 'Trace_Subst', 'c11-trace', allc, ' Mode = "trace"', bs=300, needs_sem=True)
    report(v, res, allc, ('raised', 'result', 'compose'))
    v.cov['strictness_observations_reported_under_C05'] = sum(1 for f in res.fails if f[2] == 'strictness')
