"""C03 - published theory and claims are exactly what was declared; symbol numbering is a first-use injection;
modules that cannot be encoded are refused."""
import random
import pi2v, gen, lem, exprs, c02, pexp
from pi2v import tkey

C03_CLAUSES = ('journal-axioms', 'journal-claims', 'journal-proved', 'symtab')


def run(v, tier):
    quick = tier == 'quick'
    c02.run(v, tier, clauses=C03_CLAUSES, tag='C03')
    v.assumptions[:] = ['declared axioms = imported modules first (in import order, recursively), then the module\'s own, duplicates as declared',
                        'symbol numbers are compared through the first-use table logged from the serializer; the table must be injective and stable across the three files',
                        'over-size modules: the only conforming outcome is an exception (no accepted triple)']
    # over-size modules: more than 256 symbols / variable ids >= 256 / memory index >= 256 must be refused
    big = exprs.big_modules([300])[:1]        # (without the encodable chain modules)
    big.append({'lib': False, 'axioms': [pi2v.EV(256)], 'proofs': []})
    big.append({'lib': False, 'axioms': [pi2v.MV(300)], 'proofs': []})
    big.append({'lib': False, 'axioms': [pi2v.EX(256, pi2v.EV(0))], 'proofs': []})
    reqs = [{'cmd': 'expr', 'module': m, 'interps': False, 'traces': [False, True]} for m in big]
    for q, r in zip(reqs, lem.run_applications(reqs)):
        for key in ('trace', 'trace_opt'):
            t = r.get(key)
            if t is None:
                continue
            if t['error'] is None:      # toolkit claims to have encoded it
                v.fail(f"oversize-encoded:{tkey(q['module'])[:200]}:{key}", f"a module that cannot be encoded in one byte per id was serialised without error ({key})",
                       {'family': 'module', 'case': {'spec': q['module']}})
    v.cov['oversize_modules_refused'] = len(big)
    # whole modules enumerated by the model (MC_ProofExp) with the three files ProofExpRun predicts for them
    rng = random.Random(pi2v.SEED)
    mcases, mres = pexp.run_modules(v, 'C03', limit=250 if quick else None, rng=rng)
    for f in mres.fails:
        c = mcases[f[1] - 1]
        v.fail(f"pmod/{f[2]}:{tkey(c['m'])}", f"model-generated module {tkey(c['m'])[:300]}: clause {f[2]} (toolkit error {c['error'][:80]!r}, rust says {c['rust']})",
               {'family': 'pmod', 'case': c})
