"""bin/check replay <path>: re-executes the single failing case stored in a replay file against
the implementation and re-validates it with TLC (same trace specification)."""
import json, sys
import pi2v


def main(path):
    r = json.load(open(path))
    pid = r['property']
    fam = r['case'].get('family')
    c = r['case']['case']
    v = pi2v.Verdict(pid, 'quick')
    v.known = []
    import importlib
    if fam == 'mstep':
        import c01, machine
        cases = machine.replay_steps([({k: c[k] for k in ('stack', 'memory', 'claims', 'phase', 'gamma')}, c['ins'])])
        fails = c01.validate(v, 'replay', cases, semsize=24, semmvs=3)
    elif fam in ('phase', 'verify'):
        import c05
        cases = c05.phase_cases([(c['phase'], c, c['bytes'])]) if fam == 'phase' else c05.verify_cases([(c['gamma'], c['claim'], c['proof'])])
        fails = c05.validate_stream(v, 'replay', cases)
    else:
        print(json.dumps(r, indent=1)[:3000])
        print('replay: re-run the property check; this family is replayed by its check (deterministic for a fixed VERIF_SEED)')
        return 0
    for clause, case in fails:
        print('FAIL clause', clause, json.dumps(case)[:1500])
    return 1 if fails else 0
