"""bin/check replay <path>: re-runs the check of the recorded property with the recorded seed and tier, re-executing the
implementation on the current tree and re-validating with TLC, but reporting only the recorded case (matched by its key).
Exit 1 (and a VIOLATION line) iff that case still fails."""
import json, os, subprocess, sys
import pi2v


def main(path):
    r = json.load(open(path))
    env = dict(os.environ)
    env['PI2_REPLAY_KEY'] = r['key']
    env['VERIF_SEED'] = str(r.get('seed', 0))
    env['PI2_EVIDENCE_DIR'] = os.path.join(pi2v.BUILD, 'replay-evidence')
    print(f"replaying property {r['property']} (seed {r.get('seed', 0)}, tier {r.get('tier', 'quick')}): {r['what'][:300]}")
    p = subprocess.run([os.path.join(pi2v.VERIF, 'bin/check'), r['property'], '--tier', r.get('tier', 'quick')], env=env)
    return p.returncode
