"""bin/check selftest - demonstrates that the trace specifications are BOUND to what was recorded: for every event family
one recorded field is corrupted (or one event dropped) in a copy of the last recorded case file and the same trace
specification must print a FAIL naming the expected clause.  Needs the case files of a previous quick run in build/."""
import copy, json, os, shutil, sys
import pi2v
from pi2v import run_tlc, workdir

B = pi2v.BUILD


def load(name, fn='cases.ndjson', n=60000):
    p = os.path.join(B, name, fn)
    if not os.path.exists(p):
        return None
    out = []
    with open(p) as f:
        for line in f:
            out.append(json.loads(line))
            if len(out) >= n:
                break
    return out


def cfg_of(name, module):
    return open(os.path.join(B, name, module + '.cfg')).read()


def run(module, src, cases, fn='cases.ndjson', workers=8):
    wd = workdir('selftest-' + module)
    path = os.path.join(wd, fn)
    pi2v.write_ndjson(path, cases)
    res = run_tlc(module, cfg_of(src, module), wd, env={'CASES': path}, workers=workers)
    return res


def first(cases, pred):
    for i, c in enumerate(cases):
        if pred(c):
            return i
    return None


def expect(res, clause, what, results):
    got = sorted({str(f[-1]) if module_is_gen(res) else str(f[2]) for f in res.fails})
    allc = sorted({str(x) for f in res.fails for x in f[1:] if isinstance(x, str)})
    ok = any(clause in c for c in allc)
    results.append((what, clause, ok, allc[:4]))
    print(('ok   ' if ok else 'MISS ') + f'{what}: expected clause {clause!r}, TLC printed {allc[:4]}')


def module_is_gen(res):
    return False


def main():
    results = []
    # Trace_Machine: flip a verdict; change a post-state
    cs = load('c01-reach-trace')
    if cs:
        i = first(cs, lambda c: c['out'] == 'ok' and c['post'])
        c = copy.deepcopy(cs[:50]); c[i if i < 50 else 0]['out'] = 'panic'
        expect(run('Trace_Machine', 'c01-reach-trace', c), 'verdict', 'mstep: recorded verdict flipped', results)
        c = copy.deepcopy(cs[:50]); j = first(c, lambda x: x['out'] == 'ok' and x['post']); c[j]['post'] = c[j]['post'][:-1]
        expect(run('Trace_Machine', 'c01-reach-trace', c), 'state', 'mstep: top of recorded post-stack removed', results)
        j = first(cs, lambda x: x['out'] == 'ok' and x['post'] and x['post'][-1]['k'] == 'prf')
        c = copy.deepcopy(cs[j:j + 1]); c[0]['post'][-1]['p'] = pi2v.IMP(pi2v.SV(0), pi2v.EV(0)); c[0]['stack'] = []
        expect(run('Trace_Machine', 'c01-reach-trace', c), 'unsound', 'mstep: recorded proved term replaced by X0 -> x0', results)
    cs = load('c05-short')
    if cs:
        c = copy.deepcopy(cs[:100]); j = first(c, lambda x: x['out'] == 'ok'); c[j]['out'] = 'panic'
        expect(run('Trace_Stream', 'c05-short', c), 'verdict', 'stream: recorded verdict flipped', results)
    cs = load('c06-rust')
    if cs:
        j = first(cs, lambda x: x['fn'] == 'e_fresh' and not x['res'] and x['p']['t'] == 'ev')
        c = copy.deepcopy(cs[j:j + 1]); c[0]['res'] = True; c[0]['rese'] = True
        expect(run('Trace_Judge', 'c06-rust', c), 'unsound', 'judge: a "not fresh" answer recorded as "fresh"', results)
    cs = load('c11-trace')
    if cs:
        j = first(cs, lambda x: x['fn'] == 'esubst' and x['out'] == 'ok' and x['p']['t'] == 'imp' and x['res'] != x['p']['l'])
        c = copy.deepcopy(cs[j:j + 1]); c[0]['res'] = c[0]['p']['l']
        expect(run('Trace_Subst', 'c11-trace', c), 'result', 'subst: recorded result replaced by a subterm', results)
    cs = load('c13-trace')
    if cs:
        j = first(cs, lambda x: x['fam'] == 'match' and x['found'] and x['sigma'] and not x['seed'])
        c = copy.deepcopy(cs[j:j + 1]); c[0]['sigma'][0][1] = pi2v.SYM(9)
        expect(run('Trace_PyOps', 'c13-trace', c), 'unsound', 'match: one binding of the recorded substitution changed', results)
    cs = load('c04-replay', 'traces.ndjson', 200)
    if cs:
        j = first(cs, lambda t: len(t['events']) >= 3 and all(e['out'] == 'ok' for e in t['events']) and not any(e['m'].startswith('publish') for e in t['events']))
        c = copy.deepcopy(cs[j:j + 1]); del c[0]['events'][1]
        r = run('Trace_Gen', 'c04-replay', c, 'traces.ndjson')
        expect(r, '', 'gen: one event (hook) dropped from a recorded trace -> ' + ','.join(sorted({f[3] for f in r.fails})), results)
        results[-1] = (results[-1][0], 'any', bool(r.fails), results[-1][3])
        c = copy.deepcopy(cs[j:j + 1]); c[0]['events'][-1]['top']['p'] = pi2v.SYM(77) if c[0]['events'][-1]['top']['k'] != 'none' else c[0]['events'][-1]['top']['p']
        c[0]['events'][-1]['syms'] = []
        r = run('Trace_Gen', 'c04-replay', c, 'traces.ndjson')
        ok = bool(r.fails)
        results.append(('gen: recorded top of tracker stack replaced', 'top/symtab', ok, sorted({f[3] for f in r.fails})))
        print(('ok   ' if ok else 'MISS ') + 'gen: recorded tracker top replaced -> ' + str(sorted({f[3] for f in r.fails})))
    cs = load('c14-trace')
    if cs:
        j = first(cs, lambda x: x['out'] == 'ok' and len(x['rebytes']) > 2 and x['rebytes'] == x['bytes'])
        c = copy.deepcopy(cs[j:j + 1]); c[0]['rebytes'] = c[0]['rebytes'][:-1]
        expect(run('Trace_Deser', 'c14-trace', c), 'bytes', 'deser: last re-emitted byte dropped', results)
    cs = load('c09-trace')
    if cs:
        j = first(cs, lambda x: x['fam'] == 'prove' and x['verdict'] == 'true')
        c = copy.deepcopy(cs[j:j + 1]); c[0]['verdict'] = 'none'
        expect(run('Trace_Taut', 'c09-trace', c), 'verdict', 'taut: "proved" recorded as "declined"', results)
    cs = load('c15-trace')
    if cs:
        j = first(cs, lambda x: x['fam'] == 'mmnum')
        c = copy.deepcopy(cs[j:j + 1]); c[0]['nums'][3] += 1
        expect(run('Trace_MM', 'c15-trace', c), 'num', 'mmnum: one decoded number off by one', results)
    cs = load('c17-trace')
    if cs:
        j = first(cs, lambda x: x['out'] == 'ok' and x['slices'])
        c = copy.deepcopy(cs[j:j + 1]); c[0]['printed'] = c[0]['printed'][:-1]
        expect(run('Trace_MMDb', 'c17-trace', c), 'print', 'mmdb: last printed token dropped', results)
        c = copy.deepcopy(cs[j:j + 1])
        sl = c[0]['slices'][0]
        sl['ast'] = [s for s in sl['ast'] if s['k'] != 'f'][:]          # remove the floating hypotheses from the slice
        sl['ast2'] = sl['ast']; sl['printed'] = []
        r = run('Trace_MMDb', 'c17-trace', c)
        ok = bool(r.fails)
        results.append(('mmdb: floating hypotheses removed from a slice', 'slice-*', ok, sorted({f[2] for f in r.fails})))
        print(('ok   ' if ok else 'MISS ') + 'mmdb: $f removed from a slice -> ' + str(sorted({f[2] for f in r.fails})))
    cs = load('c18-trace', 'events.ndjson')
    if cs:
        c = copy.deepcopy(cs[:40]); c[-1]['sha'] = 'deadbeef'
        c[-1]['input'] = c[0]['input']
        r = run('Determinism', 'c18-trace', c, 'events.ndjson', workers=1)
        ok = any(f[2] == 'nondeterministic' for f in r.fails)
        results.append(('det: one digest changed', 'nondeterministic', ok, []))
        print(('ok   ' if ok else 'MISS ') + 'det: one recorded digest changed')
    cs = load('c08-pexp-judge')
    if cs:
        j = first(cs, lambda x: x['hascalls'] and len(x['calls']) >= 3 and x['calls'][-1] != x['calls'][-2])
        c = copy.deepcopy(cs[j:j + 1]); c[0]['calls'][-1], c[0]['calls'][-2] = c[0]['calls'][-2], c[0]['calls'][-1]
        expect(run('Trace_ProofExp', 'c08-pexp-judge', c), 'calls', 'pexp: two recorded interpreter calls swapped', results)
        c = copy.deepcopy(cs[j:j + 1]); c[0]['advertised'] = pi2v.IMP(pi2v.SV(0), pi2v.EV(0))
        expect(run('Trace_ProofExp', 'c08-pexp-judge', c), 'advertised', 'pexp: advertised conclusion replaced', results)
        c = copy.deepcopy(cs[j:j + 1]); c[0]['interps'][3]['out'] = 'raise:AssertionError'
        expect(run('Trace_ProofExp', 'c08-pexp-judge', c), 'fails-applicable', 'pexp: one interpreter outcome flipped', results)
    cs = load('c20-trace')
    if cs:
        j = first(cs, lambda x: x['out'] == 'ok' and x['steps'] and x['steps'][0]['out'] == 'ok' and len(x['steps'][0]['claims_after']) == 1)
        c = copy.deepcopy(cs[j:j + 1]); c[0]['steps'][0]['cur_after'] = c[0]['init']
        r = run('Trace_K', 'c20-trace', c)
        ok = bool(r.fails)
        results.append(('k: recorded current configuration after a step replaced by the initial one', 'cur', ok, sorted({f[2] for f in r.fails})))
        print(('ok   ' if ok else 'MISS ') + 'k: cur_after replaced -> ' + str(sorted({f[2] for f in r.fails})))
    json.dump([{'what': a, 'expected': b, 'detected': c, 'printed': d} for a, b, c, d in results], open(os.path.join(pi2v.VERIF, 'selftest_results.json'), 'w'), indent=1)
    bad = [r for r in results if not r[2]]
    print(f'{len(results) - len(bad)} of {len(results)} corruptions rejected')
    return 1 if bad else 0
