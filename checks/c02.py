"""C02 - every proof the toolkit generates is accepted by the checker (spec machine, Rust verify(), both optimise settings)."""
import random
import pi2v, funcs, gen, lem, exprs, pexp
from pi2v import tkey

C02_CLAUSES = ('not-accepted', 'machine-rejects', 'optimise-disagree')
SHIPPED = ['propositional', 'substitution', 'small_theory', 'definedness', 'kore_lemmas', 'tautology']


def collect(rng, quick, v=None):
    """module traces: shipped modules, library-lemma applications, DSL recipes, import graphs"""
    traces = gen.module_traces(SHIPPED)
    for t in traces:
        t['src'] = f"shipped:{t['name']}"
        t['spec'] = {'shipped': t['name']}
    reqs, _ = lem.applications(rng, 2 if quick else 5, max_events=600 if quick else 4000, interps=False, traces=(False, True))
    res = lem.run_applications(reqs)
    for t in lem.module_traces(reqs, res):
        t['src'] = f"lemma:{t['name']}"
        t['spec'] = {'entry': t['name'], 'args': t['args']}
        traces.append(t)
    mods = exprs.edge_modules(rng, 10 if quick else 150) + exprs.graph_modules(rng) + exprs.big_modules([40] if quick else [40, 130, 200])
    if v is not None:
        mods += pexp.modules(v, rng, 40 if quick else 400)      # proofs enumerated by the model (MC_ProofExp)
    ereqs = [{'cmd': 'expr', 'module': m, 'interps': False, 'traces': [False, True]} for m in mods]
    eres = lem.run_applications(ereqs)
    built = [(q, r) for q, r in zip(ereqs, eres) if r.get('built')]
    vcmds, tmp = [], []
    for q, r in built:
        for key, opt in (('trace', False), ('trace_opt', True)):
            t = r[key]
            t['final']['hasdecl'] = True
            t['final']['decl'] = gen.decl_of(q['module'])
            tmp.append({'phase': 'gamma', 'claims': [], 'events': t['events'], 'final': t['final'], 'name': 'expr', 'optimize': opt,
                        'error': t['error'], 'files': t['files'], 'src': 'expr', 'spec': q['module']})
            vcmds.append('verify ' + ' '.join(str(len(x)) + ' ' + ' '.join(map(str, x)) for x in t['files']))
    for t, rr in zip(tmp, pi2v.rust_run(vcmds)):
        t['final']['rust'] = rr['out']
    return traces + tmp


def run(v, tier, clauses=C02_CLAUSES, tag='C02'):
    quick = tier == 'quick'
    rng = random.Random(pi2v.SEED)
    v.assumptions += ['a module counts as generated when the toolkit builds and executes it without raising; modules the toolkit itself refuses are not cases',
                      'accepted = the specification machine accepts the three emitted files with no claim left AND the real verify() accepts them']
    traces = collect(rng, quick, v)
    # a module the toolkit executed without error but could not be traced to the end is itself a finding (error != None)
    v.cov['modules'] = len(traces)
    v.sample({'src': traces[0]['src'], 'optimize': traces[0]['optimize'], 'events': len(traces[0]['events'])})
    v.sample({'src': traces[-1]['src'], 'spec': traces[-1]['spec'], 'optimize': traces[-1]['optimize']})
    # pair the two optimise settings of the same module: a run-time refusal under one setting only is a disagreement
    bykey = {}
    for t in traces:
        bykey.setdefault((t['src'], tkey(t['spec'])), []).append(t)
    for grp in bykey.values():
        for t in grp:
            others = [o for o in grp if o['optimize'] != t['optimize']]
            t['final']['peer'] = 'none' if not others else ('ok' if any(o['error'] is None for o in others) else 'raise')
    for t in traces:
        if t['error'] is not None:
            t['final']['module'] = False       # the toolkit refused at run time: not a generated proof
    fails = gen.validate(v, tag, tag.lower() + '-modules', traces)
    rejected = {tid for tid, _, clause in fails if clause.startswith('machine-rejects')}
    for tid, line, clause in fails:
        base = clause.split('/')[0]
        if base == 'not-accepted' and tid in rejected:
            continue           # already reported with the reason of the rejection
        if base not in clauses:
            continue
        t = traces[tid - 1]
        if base == 'machine-rejects' and t['error'] is not None and t['final'].get('peer') != 'ok':
            continue
        v.fail(f"{clause}:{t['src']}:{t['optimize']}:{tkey(t['spec'])}",
               f"{t['src']} optimize={t['optimize']} {tkey(t['spec'])[:300]}: clause {clause} at event {line} (rust says {t['final']['rust']})",
               {'family': 'module', 'case': {'spec': t['spec'], 'optimize': t['optimize'], 'clause': clause}})
    v.cov['modules_refused_at_run_time'] = sum(1 for t in traces if t['error'] is not None)
