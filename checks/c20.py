"""C20 - K execution traces become chained, checkable rewrite proofs."""
import json, random
import pi2v, funcs, gen
from pi2v import py_run, tkey, rust_run
import c15


def app(sym, *args, sorts=()):
    return {'k': 'app', 'sym': sym, 'sorts': list(sorts), 'args': list(args)}


def ev(name, sort):
    return {'k': 'evar', 'name': name, 'sort': sort}


def gen_case(rng, n_steps, trace):
    sorts = ['S0', 'S1'][:rng.choice([1, 2])]
    S = sorts[0]
    consts = ['a', 'b', 'c', 'd']
    symbols = [{'name': x, 'sort': S, 'attrs': ['functional', 'constructor']} for x in consts]
    symbols.append({'name': 'f', 'sort': S, 'inputs': [S], 'attrs': ['functional', 'constructor']})
    symbols.append({'name': 'g', 'sort': S, 'inputs': [S, S], 'attrs': ['functional', 'constructor']})
    symbols.append({'name': 'cell', 'sort': S, 'inputs': [S], 'attrs': ['functional', 'constructor', 'cell']})
    if len(sorts) > 1:
        symbols.append({'name': 'inj', 'sort': '$To', 'params': ['From', 'To'], 'inputs': ['$From'], 'attrs': ['functional']})
        symbols.append({'name': 'k1', 'sort': 'S1', 'attrs': ['functional', 'constructor']})

    def ground(d):
        if d == 0 or rng.random() < 0.4:
            return app(rng.choice(consts))
        k = rng.random()
        if k < 0.4:
            return app('f', ground(d - 1))
        if k < 0.75:
            return app('g', ground(d - 1), ground(d - 1))
        if k < 0.87 and len(sorts) > 1:       # parametric symbol inj{S1, S0}(k1)
            return app('inj', app('k1'), sorts=['S1', 'S0'])
        return app('cell', ground(d - 1))

    def open_term(d, vs):
        if d == 0 or rng.random() < 0.35:
            return rng.choice([ev(v, S) for v in vs] + [app(rng.choice(consts))])
        k = rng.random()
        if k < 0.4:
            return app('f', open_term(d - 1, vs))
        if k < 0.75:
            return app('g', open_term(d - 1, vs), open_term(d - 1, vs))
        if k < 0.87 and len(sorts) > 1:
            return app('inj', app('k1'), sorts=['S1', 'S0'])
        return app('cell', open_term(d - 1, vs))

    def vars_of(t):
        if t['k'] == 'evar':
            return [t['name']]
        out = []
        for a in t.get('args', []):
            for v in vars_of(a):
                if v not in out:
                    out.append(v)
        return out

    def sub(t, sg):
        if t['k'] == 'evar':
            return sg[t['name']]
        return dict(t, args=[sub(a, sg) for a in t.get('args', [])])
    rules = []
    if rng.random() < 0.35:      # two rules sharing an identical open subterm whose variables first occur in different orders
        sh = app('g', ev('X', S), ev('Y', S))
        rules.append({'sort': S, 'l': app('f', sh), 'r': app('g', ev('Y', S), ev('X', S))})
        rules.append({'sort': S, 'l': app('g', ev('Y', S), sh), 'r': sh})
    for i in range(rng.choice([2, 3, 4])):
        vs = ['X', 'Y', 'Z'][:rng.choice([0, 1, 2, 2, 3])]
        l = open_term(2, vs) if vs else app(rng.choice(consts))
        lv = vars_of(l)
        r = open_term(2, lv) if lv else app(rng.choice(consts))
        # some rules are stated over a sort VARIABLE (axiom{R} \\rewrites{R}(...)): the sort parameter is met before the element variables
        rules.append({'sort': '$R' if rng.random() < 0.3 else S, 'l': l, 'r': r})
    # an execution: start from a ground instance of some rule's lhs; each step instantiates a rule so that its lhs is the current term
    steps = []
    r0 = rng.randrange(len(rules))
    sg = {v: ground(1) for v in vars_of(rules[r0]['l'])}
    init = sub(rules[r0]['l'], sg)
    cur = init
    for s in range(n_steps):
        cands = []
        for ri, r in enumerate(rules):
            m = kmatch(r['l'], cur, {})
            if m is not None:
                cands.append((ri, m))
        wrong = rng.random() < 0.25 or not cands
        if wrong:      # deliberately mismatching step
            ri = rng.randrange(len(rules))
            sg = {v: ground(1) for v in vars_of(rules[ri]['l'])}
            steps.append({'rule': ri, 'subst': sg})
            if sub(rules[ri]['l'], sg) == cur:
                cur = sub(rules[ri]['r'], sg)
        else:
            ri, m = rng.choice(cands)
            steps.append({'rule': ri, 'subst': m})
            cur = sub(rules[ri]['r'], m)
    for st in steps:        # a trace may list the substitution of a step in any order
        items = list(st['subst'].items())
        rng.shuffle(items)
        st['subst'] = dict(items)
    reported = [None] * len(steps)
    if steps and rng.random() < 0.4:          # the trace reports stale / unrelated post-configurations
        for k in range(len(steps)):
            if rng.random() < 0.6:
                reported[k] = ground(1)
    rule_substs = {str(i): {v: ground(1) for v in set(vars_of(r['l'])) | set(vars_of(r['r']))} for i, r in enumerate(rules)}
    off = rng.choice([0, 0, 1, 2])       # axioms before the rules that take an ordinal without being rules (rule i has ordinal i + off)
    for st in steps:
        st['rule'] += off
    rule_substs = {k: v for k, v in rule_substs.items()}
    noise = [[rng.choice(['fun', 'hook']) for _ in range(rng.choice([0, 0, 1, 2, 3]))] for _ in steps]     # events between the rule events
    return {'cmd': 'ktrace', 'trace': trace, 'optimize': rng.random() < 0.5, 'reported': reported, 'rule_substs': rule_substs, 'noise': noise,
            'definition': {'sorts': sorts, 'symbols': symbols, 'rules': rules, 'ordinal_offset': off}, 'init': init, 'steps': steps}


def kmatch(pat, t, sg):
    if pat['k'] == 'evar':
        if pat['name'] in sg:
            return sg if sg[pat['name']] == t else None
        sg = dict(sg); sg[pat['name']] = t
        return sg
    if t['k'] != 'app' or pat['sym'] != t['sym'] or len(pat.get('args', [])) != len(t.get('args', [])) or pat.get('sorts') != t.get('sorts'):
        return None
    for a, b in zip(pat.get('args', []), t.get('args', [])):
        sg = kmatch(a, b, sg)
        if sg is None:
            return None
    return sg


def run(v, tier):
    quick = tier == 'quick'
    rng = random.Random(pi2v.SEED)
    v.assumptions += ['pyk.kore.syntax / pyk.kllvm are provided by harness/py/pykshim.py (the real package is not installed): dataclasses with the positional fields the repository matches on',
                      'definitions are built through LanguageSemantics.from_kore_definition; substitutions are ground']
    reqs = [gen_case(rng, rng.randrange(1, 6), i % (4 if quick else 3) == 0) for i in range(150 if quick else 2500)]
    e = {'PYTHONPATH': None}
    from concurrent.futures import ThreadPoolExecutor
    n = 12
    chunks = [reqs[i::n] for i in range(n)]
    with ThreadPoolExecutor(n) as ex:
        outs = list(ex.map(lambda c: py_run(c, script='kharness.py') if c else [], chunks))
    res = [None] * len(reqs)
    for i, o in enumerate(outs):
        res[i::n] = o
    cases, traces = [], []
    acc = ref = 0
    for q, r in zip(reqs, res):
        c = {'out': 'ok' if r['out'] == 'ok' else 'raise', 'exc': r['out'], 'req': {'definition': q['definition'], 'init': q['init'], 'steps': q['steps'], 'reported': [x if x is not None else {'k': 'same'} for x in q['reported']]},
             'rewrites_def': r.get('rewrites_def', pi2v.EV(0)), 'init': r.get('init', pi2v.EV(0)), 'steps': r.get('steps', []), 'convs': r.get('convs', []),
             'hints_out': (r.get('hints_out') or 'raise')[:5].rstrip(':'), 'hints_claims': r.get('hints_claims', []),
             'llvm_out': (r.get('llvm_out') or 'raise')[:5].rstrip(':'), 'llvm_claims': r.get('llvm_claims', [])}
        cases.append(c)
        acc += sum(1 for s in c['steps'] if s['out'] == 'ok')
        ref += sum(1 for s in c['steps'] if s['out'] != 'ok')
        if 'trace' in r:
            t = r['trace']
            traces.append({'phase': 'gamma', 'claims': [], 'events': t['events'], 'final': t['final'], 'files': t['files'], 'error': t['error'], 'req': c['req']})
    v.cov['traces'] = len(cases)
    v.cov['steps_accepted'] = acc
    v.cov['steps_refused'] = ref
    v.sample({'rules': cases[0]['req']['definition']['rules'], 'init': cases[0]['req']['init'], 'steps': cases[0]['req']['steps'],
              'outcomes': [s['out'] for s in cases[0]['steps']]})
    res2, _ = funcs.run_blocks(v, 'C20', 'Trace_K', 'c20-trace', cases, '', bs=2)
    for f in res2.fails:
        c = cases[f[1] - 1]
        v.fail(f"{f[2]}:{tkey(c['req'])[:600]}", f"clause {f[2]} ({c['exc']}); rules {tkey(c['req']['definition']['rules'])[:300]} steps {tkey(c['req']['steps'])[:300]}",
               {'family': 'k', 'case': c['req']})
    vcmds = ['verify ' + ' '.join(str(len(x)) + ' ' + ' '.join(map(str, x)) for x in t['files']) for t in traces]
    for t, rr in zip(traces, rust_run(vcmds)):
        t['final']['rust'] = rr['out']
    if traces:
        for tid, line, clause in gen.validate(v, 'C20', 'c20-replay', traces):
            t = traces[tid - 1]
            v.fail(f"replay-{clause}:{tkey(t['req'])[:600]}", f"serialised execution proof: clause {clause} at event {line}", {'family': 'k', 'case': t['req']})
