"""C16 - valid Metamath proofs translate to checkable proofs of the same statement."""
import glob, os, random
import pi2v, funcs, gen, mmgen, c15
from pi2v import py_run, tkey, rust_run


def run(v, tier):
    quick = tier == 'quick'
    rng = random.Random(pi2v.SEED)
    v.assumptions += ['supported fragment: one $p (the target) per database, |- axioms and rules, <c>-is-pattern constructors, prop-1/prop-2/mp; targets without essential hypotheses',
                      'validity of every generated Metamath proof is established by MMVerify under TLC (clause mm-invalid would be a defect of the generator, exit 2)',
                      'image compared modulo injective renaming of symbols (global) and metavariables (per pattern)']
    reqs, meta = [], []
    n = 60 if quick else 250
    for i in range(n):
        seed = rng.random()
        kw = dict(nconstr=rng.choice([1, 2, 3]), naxioms=rng.choice([2, 3, 4]), nrules=rng.choice([0, 1, 2]), nsugar=rng.choice([0, 0, 1, 2]), nquoted=rng.choice([0, 0, 1, 2]))
        for z in ('none', 'all', 'random', 'dup'):   # the same database and derivation in four compression layouts
            text, lemmas = mmgen.database(random.Random(seed), nlemmas=1, zmode=z, deep=True, **kw)
            if i % 3 == 1:       # variables whose $f declaration order is not the alphabetical order of their names
                text = mmgen.retoken(text, mmgen.RENAME_VARS)
            reqs.append({'cmd': 'mmtr', 'text': text, 'target': 'goal', 'trace': z == 'all' and i % (3 if quick else 2) == 0})
            meta.append({'db': i, 'layout': z})
    # one rule applied to LARGE terms, every compound step marked: reuse slots numbered well beyond 140 (three-letter words)
    for i in range(2 if quick else 20):
        seed = rng.random()
        depth = 8 if quick or i % 5 else 9          # depth 9: more than 255 marks (the known finding C16-more-marks-than-memory-slots)
        for z in ('none', 'every', 'all'):
            text, lemmas = mmgen.big_instance_database(random.Random(seed), zmode=z, depth=depth)
            reqs.append({'cmd': 'mmtr', 'text': text, 'target': 'goal', 'trace': False})
            meta.append({'db': f'big{i}', 'layout': z})
    # shipped single-goal benchmarks
    # (the supported fragment: the benchmarks the repository itself translates - a snapshot under proofs/translated or a
    # test in test_translate.py; transfer-goal.mm needs mu-patterns over unconstrained metavariables, which the checker
    # rejects as ill-formed, and is translated nowhere in the repository)
    for f in sorted(glob.glob(os.path.join(pi2v.REPO, 'generation/mm-benchmarks/*-goal.mm'))):
        name = os.path.basename(f)[:-3]
        supported = os.path.exists(os.path.join(pi2v.REPO, 'proofs/translated', name + '.ml-proof')) or name == 'transfer-simple-goal'
        if supported and os.path.getsize(f) < (20000 if quick else 200000):
            reqs.append({'cmd': 'mmtr', 'text': open(f).read(), 'target': 'goal', 'trace': False})
            meta.append({'db': os.path.basename(f), 'layout': 'shipped'})
    res = c15.lem_run(reqs)
    asts = c15.lem_run([{'cmd': 'mmdb', 'text': q['text'], 'lemmas': [], 'slice': False} for q in reqs])
    vcmds = ['verify ' + ' '.join(str(len(x)) + ' ' + ' '.join(map(str, x)) for x in r['files']) for r in res]
    rv = rust_run(vcmds)
    cases, traces = [], []
    for q, m, r, a, rr in zip(reqs, meta, res, asts, rv):
        if a['out'] != 'ok':
            raise pi2v.MachineryError('generated database does not parse: ' + a['out'])
        cases.append({'fam': 'translate', 'db': m['db'], 'layout': m['layout'], 'text': q['text'], 'ast': a['ast'], 'target': 'goal',
                      'out': 'ok' if r['out'] == 'ok' else 'raise', 'exc': r['out'], 'files': r['files'], 'rust': rr['out']})
        if 'trace' in r:
            t = r['trace']
            t['final']['rust'] = rr['out']
            traces.append({'phase': 'gamma', 'claims': [], 'events': t['events'], 'final': t['final'], 'files': t['files'], 'error': t['error'], 'text': q['text']})
    v.cov['databases'] = n
    v.cov['translations'] = len(cases)
    v.sample({'database_tail': cases[0]['text'][-500:], 'layout': cases[0]['layout'], 'out': cases[0]['exc']})
    res2, _ = funcs.run_blocks(v, 'C16', 'Trace_MMDb', 'c16-trace', cases, '', bs=2)
    for f in res2.fails:
        c = cases[f[1] - 1]
        if f[2] == 'mm-invalid':
            raise pi2v.MachineryError(f"generator produced a proof MMVerify rejects: {c['text'][-300:]}")
        v.fail(f"{f[2]}:{c['layout']}:{tkey(c['text'])[-300:]}", f"db {c['db']} layout {c['layout']}: clause {f[2]} ({c['exc'][:150]}); target {c['text'].strip().splitlines()[-1][:200]}",
               {'family': 'mmtr', 'case': {'text': c['text'], 'layout': c['layout']}})
    # layouts of one database must publish the same journal: implied by 'image' for each; additionally the DSL trace is a legal
    # generator / machine behaviour (Rel at every call) and the module is accepted
    if traces:
        for tid, line, clause in gen.validate(v, 'C16', 'c16-replay', traces):
            t = traces[tid - 1]
            v.fail(f"replay-{clause}:{tkey(t['text'])[-300:]}", f"translation trace: clause {clause} at event {line}; target {t['text'].strip().splitlines()[-1][:200]}",
                   {'family': 'mmtr', 'case': {'text': t['text']}})
