"""C04 - the generator-side tracker is a faithful simulation of the real machine."""
import json
import pi2v, gen
from pi2v import tkey

C04_CLAUSES = ('machine-rejects', 'stack-length', 'top', 'memory', 'claims', 'bytes-on-raise')
SHIPPED = ['propositional', 'substitution', 'small_theory', 'definedness', 'kore_lemmas']


def sig(call):
    """signature of the call at which a trace stops conforming (key of a finding)"""
    return call['m'] if isinstance(call, dict) else str(call)


def run(v, tier):
    quick = tier == 'quick'
    v.assumptions += ['PyPublishKeepsTop: the tracker keeps published terms on its stack (pinned by test_interpreter_proof_state); Rel compares modulo these retained slots',
                      'calls take their operands from the tracker state, as the proof DSL does']
    seqs = gen.explore(v, 'C04', 'c04-model', 3 if quick else 4)
    traces = gen.replay_sequences(seqs)
    v.sample({'phase': traces[-1]['phase'], 'calls': [c['m'] for c in traces[-1]['calls']]})
    fails = gen.validate(v, 'C04', 'c04-replay', traces)
    for tid, line, clause in fails:
        if clause.split('/')[0] not in C04_CLAUSES:
            continue
        t = traces[tid - 1]
        ev = t['events'][line - 1]
        key = f"{clause}:{ev['m']}:{tkey([c for c in t['calls'][:line]])}"
        v.fail(key, f"after calls {[c['m'] for c in t['calls'][:line]]} (phase {t['phase']}): clause {clause} at call {line} ({ev['m']})",
               {'family': 'gen', 'case': {'phase': t['phase'], 'calls': t['calls'], 'clause': clause, 'line': line}})
    # whole modules, both optimise settings
    mt = gen.module_traces(SHIPPED if not quick else SHIPPED[:3] + ['definedness'])
    v.sample({'module': mt[0]['name'], 'optimize': mt[0]['optimize'], 'events': len(mt[0]['events'])})
    for tid, line, clause in gen.validate(v, 'C04', 'c04-modules', mt):
        if clause.split('/')[0] not in C04_CLAUSES:
            continue
        t = mt[tid - 1]
        key = f"{clause}:module:{t['name']}:{t['optimize']}:{line}"
        v.fail(key, f"module {t['name']} optimize={t['optimize']}: clause {clause} at event {line} ({t['events'][line-1]['m'] if line <= len(t['events']) else 'end'})",
               {'family': 'gen', 'case': {'module': t['name'], 'optimize': t['optimize'], 'line': line, 'clause': clause}})
