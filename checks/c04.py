"""C04 - the generator-side tracker is a faithful simulation of the real machine."""
import json
import pi2v, gen
from pi2v import tkey

C04_CLAUSES = ('machine-rejects', 'stack-length', 'top', 'memory', 'claims', 'bytes-on-raise')
SHIPPED = ['propositional', 'substitution', 'small_theory', 'definedness', 'kore_lemmas']


def named_sequences():
    """longer hand-written behaviours the bounded exploration does not reach (judged by the same trace specification):
    a pattern and the proof of the same pattern saved one after the other (they share their printed name), then both loaded"""
    M, I, BOT = pi2v.MV, pi2v.IMP, pi2v.BOT
    def C(m, n=0, a=BOT, b=BOT, d=(), cs=()):
        return {'m': m, 'n': n, 'a': a, 'b': b, 'd': list(d), 'cs': list(cs)}
    mv = lambda i: C('metavar', i, cs=[[], [], [], [], []])
    W = I(M(0), I(M(1), M(0)))
    pat, prf = {'k': 'pat', 'p': W}, {'k': 'prf', 'p': W}
    build = [mv(0), mv(1), mv(0), C('implies', a=M(1), b=M(0)), C('implies', a=M(0), b=I(M(1), M(0)))]
    s1 = build + [C('save', a=pat), C('pop', a=pat), C('prop1'), C('save', a=prf), C('pop', a=prf), C('load', a=pat), C('pop', a=pat), C('load', a=prf)]
    s2 = [C('prop1'), C('save', a=prf), C('pop', a=prf)] + build + [C('save', a=pat), C('pop', a=pat), C('load', a=prf), C('pop', a=prf), C('load', a=pat)]
    s3 = build + [C('save', a=pat), C('save', a=pat), C('pop', a=pat), C('load', a=pat), C('load', a=pat)]
    # a proved term with a pending substitution whose PLUG alone mentions the metavariable instantiated next
    ES = pi2v.ES(M(2), 1, M(3))
    P1 = I(M(0), I(M(1), M(0)))
    Q = I(ES, I(M(1), ES))
    s4 = [C('evar', 0), mv(3), mv(2), C('esubst', 1, a=M(2), b=M(3)), C('prop1'), C('instantiate', a=P1, d=[[0, ES]]),
          C('instantiate', a=Q, d=[[3, pi2v.EV(0)]])]
    SS = pi2v.SS(M(2), 1, M(3))
    Q2 = I(SS, I(M(1), SS))
    s5 = [C('svar', 0), mv(3), mv(2), C('ssubst', 1, a=M(2), b=M(3)), C('prop1'), C('instantiate', a=P1, d=[[0, SS]]),
          C('instantiate', a=Q2, d=[[3, pi2v.SV(0)]])]
    return [{'phase': 'proof', 'good': True, 'calls': s} for s in (s1, s2, s3, s4, s5)]


def sig(call):
    """signature of the call at which a trace stops conforming (key of a finding)"""
    return call['m'] if isinstance(call, dict) else str(call)


def run(v, tier):
    quick = tier == 'quick'
    v.assumptions += ['PyPublishKeepsTop: the tracker keeps published terms on its stack (pinned by test_interpreter_proof_state); Rel compares modulo these retained slots',
                      'calls take their operands from the tracker state, as the proof DSL does']
    seqs = gen.explore(v, 'C04', 'c04-model', 3 if quick else 4)
    seqs = named_sequences() + seqs
    traces = gen.replay_sequences(seqs)
    v.sample({'phase': traces[-1]['phase'], 'calls': [c['m'] for c in traces[-1]['calls']]})
    fails = gen.validate(v, 'C04', 'c04-replay', traces)
    for tid, line, clause in fails:
        if clause.split('/')[0] not in C04_CLAUSES:
            continue
        t = traces[tid - 1]
        ev = t['events'][line - 1]
        key = f"{clause}:{ev['m']}:{tkey([c for c in t['calls'][:line]])}"
        v.fail(key, f"after calls {[c['m'] for c in t['calls'][:line]]} (phase {t['phase']}): clause {clause} at call {line} ({ev['m']})",
               {'family': 'gen', 'case': {'phase': t['phase'], 'calls': t['calls'], 'clause': clause, 'line': line}})
    # deep random behaviours of the same model (TLC simulation), replayed and validated the same way
    deep = gen.explore(v, 'C04', 'c04-simulate', 12 if quick else 14, simulate=(60 if quick else 250, pi2v.SEED + 1))
    dtraces = gen.replay_sequences(deep)
    if dtraces:
        v.sample({'deep_behaviour': [c['m'] for c in dtraces[0]['calls']]})
    for tid, line, clause in gen.validate(v, 'C04', 'c04-simulate-replay', dtraces):
        if clause.split('/')[0] not in C04_CLAUSES:
            continue
        t = dtraces[tid - 1]
        ev = t['events'][line - 1]
        v.fail(f"{clause}:{ev['m']}:{tkey([c for c in t['calls'][:line]])}", f"after calls {[c['m'] for c in t['calls'][:line]]} (phase {t['phase']}): clause {clause} at call {line} ({ev['m']})",
               {'family': 'gen', 'case': {'phase': t['phase'], 'calls': t['calls'], 'clause': clause, 'line': line}})
    memo(v, quick)
    # whole modules, both optimise settings
    mt = gen.module_traces(SHIPPED if not quick else SHIPPED[:3] + ['definedness'])
    v.sample({'module': mt[0]['name'], 'optimize': mt[0]['optimize'], 'events': len(mt[0]['events'])})
    for tid, line, clause in gen.validate(v, 'C04', 'c04-modules', mt):
        if clause.split('/')[0] not in C04_CLAUSES:
            continue
        t = mt[tid - 1]
        key = f"{clause}:module:{t['name']}:{t['optimize']}:{line}"
        v.fail(key, f"module {t['name']} optimize={t['optimize']}: clause {clause} at event {line} ({t['events'][line-1]['m'] if line <= len(t['events']) else 'end'})",
               {'family': 'gen', 'case': {'module': t['name'], 'optimize': t['optimize'], 'line': line, 'clause': clause}})


def memo(v, quick):
    """the memoising wrapper: (A) MC_Memo - for every pattern p of the universe, every memo set S and initial memory, the composite
    pattern(p) preserves Rel and builds exactly p; (B) sampled cases replayed on the real MemoizingInterpreter; (C) Trace_Gen on the
    primitive calls it made, and their method sequence against Memo!PatCalls"""
    import random, funcs, lem
    rng = random.Random(pi2v.SEED)
    res, n = funcs.run_blocks(v, 'C04', 'MC_Memo', 'c04-memo-model', None, f' Mode = "spec"\n MaxPSize = {6 if quick else 9}', bs=25)
    if res.fails:
        raise pi2v.MachineryError(f'MC_Memo: the memoisation model itself breaks Rel: {res.fails[:3]}')
    cases = []
    for line in res.out.splitlines():
        line = line.strip()
        if line.startswith('"MEMO '):
            cases.append(json.loads(json.loads(line)[5:]))
    v.cov['memo_composites_model_checked'] = len(cases)
    cases = [c for c in cases if all(e['k'] == 'pat' for e in c['mem'])]
    if len(cases) > (500 if quick else 5000):
        cases = rng.sample(cases, 500 if quick else 5000)
    reqs = [{'cmd': 'memo', 'p': c['p'], 'S': c['S'], 'mem': c['mem']} for c in cases]
    out = lem.run_applications(reqs)
    traces, tcases = [], []
    for c, r in zip(cases, out):
        traces.append({'phase': 'proof', 'claims': [], 'events': r['events'], 'final': {'module': False, 'axioms': [], 'claims': [], 'rust': 'none'}, 'case': c})
        tcases.append({'p': c['p'], 'S': c['S'], 'mem': c['mem'], 'out': 'ok' if r['out'] == 'ok' else 'raise', 'methods': r['methods']})
    for tid, line, clause in gen.validate(v, 'C04', 'c04-memo-replay', traces):
        if clause.split('/')[0] in C04_CLAUSES:
            c = traces[tid - 1]['case']
            v.fail(f"memo-{clause}:{tkey(c['p'])}:{tkey(c['S'])}:{tkey(c['mem'])}", f"MemoizingInterpreter.pattern on {tkey(c['p'])[:200]} with memo set {tkey(c['S'])[:200]}: clause {clause} at event {line}",
                   {'family': 'memo', 'case': c})
    res2, _ = funcs.run_blocks(v, 'C04', 'MC_Memo', 'c04-memo-calls', tcases, ' Mode = "trace"\n MaxPSize = 1', bs=50)
    for f in res2.fails:
        c = tcases[f[1] - 1]
        v.fail(f"memo-{f[2]}:{tkey(c['p'])}:{tkey(c['S'])}:{tkey(c['mem'])}", f"MemoizingInterpreter.pattern on {tkey(c['p'])[:200]} memo {tkey(c['S'])[:150]} made calls {c['methods']} ({c['out']}): clause {f[2]}",
               {'family': 'memo', 'case': c})
