"""C12 - notation is transparent."""
import random
import pi2v, funcs
from pi2v import py_run, tkey
from c11 import PLUGS, adversarial_deltas, deltas

CLSS = ('Implies', 'App', 'Exists', 'Mu', 'EVar', 'SVar', 'Symbol')


def jsubst(t, sg):
    """plain metavariable substitution on a substitution-free term"""
    k = t['t']
    if k == 'mv':
        return sg.get(t['i'], t)
    if k in ('imp', 'app'):
        return dict(t, l=jsubst(t['l'], sg), r=jsubst(t['r'], sg))
    if k in ('ex', 'mu'):
        return dict(t, p=jsubst(t['p'], sg))
    return t


def jexpand(t):
    """expansion of notation nodes for substitution-free definitions (re-checked by TLC: clause bad-expansion)"""
    k = t['t']
    if k == 'inst':
        return jsubst(jexpand(t['p']), {kk: jexpand(vv) for kk, vv in t['d']})
    if k in ('imp', 'app'):
        return dict(t, l=jexpand(t['l']), r=jexpand(t['r']))
    if k in ('ex', 'mu'):
        return dict(t, p=jexpand(t['p']))
    return t


def alias_chains(rng):
    """several notation levels directly above a binder / an implication / an application; alias notations whose
    definition is a bare metavariable (ident := #0), projections, aliases of aliases"""
    N, M, I = funcs.NOT_DEFS, pi2v.MV, pi2v.NINST
    a, b = pi2v.EV(0), pi2v.SYM(1)
    ident = lambda x: I(M(0), [(0, x)])
    proj = lambda x, y: I(M(1), [(0, x), (1, y)])
    ex0 = lambda x: I(pi2v.EX(0, M(0)), [(0, x)])
    lfp = lambda x: I(pi2v.MU(1, pi2v.IMP(M(0), pi2v.SV(1))), [(0, x)])
    base = [I(N['bot'], []), I(I(N['bot'], []), []), ident(N['bot']), ident(ident(N['bot'])), proj(a, N['bot']),
            ex0(a), I(ex0(M(0)), [(0, pi2v.APP(b, a))]), ident(ex0(a)), ident(ident(ex0(pi2v.EV(1)))), lfp(a), ident(lfp(b)), I(lfp(M(0)), [(0, b)]),
            ident(pi2v.IMP(a, b)), ident(ident(pi2v.IMP(M(0), M(1)))), ident(pi2v.APP(b, a)), proj(b, pi2v.APP(b, a)), ident(N['neg'](a)), ident(N['and'](a, b)),
            ident(a), ident(pi2v.SV(1)), ident(b), N['neg'](ident(a)), pi2v.IMP(ident(a), I(N['bot'], [])), ident(M(0)), proj(M(1), M(0))]
    out = []
    for t in base:
        out.append({'p': t, 'e': jexpand(t), 'pe': True})
        out.append({'p': pi2v.IMP(t, rng.choice(base)), 'e': jexpand(pi2v.IMP(t, t)), 'pe': True})
        out[-1]['e'] = jexpand(out[-1]['p'])
    return out


def ops_for(p, rng, nd):
    g = rng.choice(PLUGS + [funcs.NOT_DEFS['neg'](pi2v.EV(0)), funcs.NOT_DEFS['bot']])
    ops = [{'fn': 'evar_is_free', 'x': rng.choice((0, 1))}, {'fn': 'metavars'},
           {'fn': 'apply_esubst', 'x': rng.choice((0, 1)), 'g': g}, {'fn': 'apply_ssubst', 'x': rng.choice((0, 1)), 'g': g}]
    for d in deltas(rng, p, nd) + rng.sample(adversarial_deltas(p), 2):
        ops.append({'fn': 'instantiate', 'd': d})
    for cls in CLSS:
        ops.append({'fn': 'unwrap', 'cls': cls})
        if cls not in ('Implies', 'App'):
            ops.append({'fn': 'deconstruct', 'cls': cls})
    return ops


def run(v, tier):
    quick = tier == 'quick'
    rng = random.Random(pi2v.SEED)
    u = pi2v.universes()
    v.assumptions += ['hash/equality consistency of notation nodes is not part of the property and is not checked',
                      'expansions are computed by TLC (MLCore!Expand), not by the toolkit']
    pairs = u['NU1'] + (rng.sample(u['NU2S'], 250) if quick else u['NU2S']) + alias_chains(rng)
    gn = funcs.Gen(pi2v.SEED + 12, ids=(0, 1), notation=True)
    rnd = [gn.term(3) for _ in range(150 if quick else 3000)]
    # ---- equality: (p == q) iff expansions equal, both orders
    P = [x['p'] for x in pairs] + rnd
    E = [x['e'] for x in pairs]
    eqp = [(x['p'], x['e']) for x in pairs] + [(x['e'], x['p']) for x in rng.sample(pairs, 100)]
    for _ in range(4000 if quick else 60000):
        eqp.append((rng.choice(P), rng.choice(P + E)))
    # near misses: same expansion built differently / one leaf changed
    N = funcs.NOT_DEFS
    for a in rng.sample(P, 150 if quick else 1500):
        eqp.append((N['neg'](a), pi2v.IMP(a, pi2v.BOT)))
        eqp.append((N['neg'](a), pi2v.IMP(a, N['bot'])))
        eqp.append((N['and'](a, a), N['neg'](pi2v.IMP(a, N['neg'](a)))))
        eqp.append((N['or'](a, pi2v.EV(0)), pi2v.IMP(N['neg'](a), pi2v.EV(1))))
        eqp.append((N['neg'](N['neg'](a)), N['neg'](a)))
    # real library notations (definitions are shared objects), applied to argument tuples that differ in ONE position
    # (some notations ignore an argument, e.g. Kore sort parameters), and partial / over-complete applications
    nots = py_run([{'fn': 'notations'}])[0]['res']
    argp = [pi2v.EV(0), pi2v.EV(1), pi2v.SYM(3), pi2v.MV(0), pi2v.MV(1), N['bot'], N['neg'](pi2v.EV(0))]
    acmds = []
    for label, ar in nots:
        if ar == 0:
            continue
        for _ in range(3 if quick else 12):
            a = [rng.choice(argp) for _ in range(ar)]
            b = list(a)
            k = rng.randrange(ar)
            b[k] = rng.choice([x for x in argp if x != a[k]])
            acmds.append({'fn': 'apply_notation', 'label': label, 'args': a}); acmds.append({'fn': 'apply_notation', 'label': label, 'args': b})
    ares = py_run(acmds)
    for k in range(0, len(ares), 2):
        if ares[k]['out'] == 'ok' and ares[k + 1]['out'] == 'ok':
            x, y = ares[k]['res'], ares[k + 1]['res']
            eqp.append((x, y)); eqp.append((x, x))
            # the same application with an extra identity binding / with a binding dropped
            extra = dict(x); extra['d'] = x['d'] + [[len(x['d']) + 3, pi2v.MV(len(x['d']) + 3)]]
            eqp.append((x, extra))
            if len(x['d']) > 1:
                fewer = dict(x); fewer['d'] = x['d'][:-1]
                eqp.append((x, fewer))
    cmds = []
    for p, q in eqp:
        cmds += [{'fn': 'eq', 'p': p, 'q': q}, {'fn': 'eq', 'p': q, 'q': p}]
    res = py_run(cmds)
    cases = []
    for k, (p, q) in enumerate(eqp):
        a, b = res[2 * k], res[2 * k + 1]
        ok = a['out'] == 'ok' and b['out'] == 'ok'
        cases.append({'fam': 'eq', 'p': p, 'q': q, 'out': 'ok' if ok else 'raise', 'pq': bool(a['res']), 'qp': bool(b['res'])})
    v.sample({'fam': 'eq', 'p': cases[3]['p'], 'q': cases[3]['q'], 'pq': cases[3]['pq']})
    # ---- every operation on p and on Expand(p)
    cmds, meta = [], []
    for x in pairs:
        for op in ops_for(x['p'], rng, 1 if quick else 3):
            cmds += [{'fn': 'op', 'call': dict(op, p=x['p'])}, {'fn': 'op', 'call': dict(op, p=x['e'])}]
            meta.append((x, op))
        # matching with p on either side
        other = rng.choice(pairs)
        for a, b in ((x, other), (other, x)):
            cmds += [{'fn': 'op', 'call': {'fn': 'match_single', 'p': a['p'], 'q': b['p']}},
                     {'fn': 'op', 'call': {'fn': 'match_single', 'p': a['e'], 'q': b['e']}}]
            meta.append((x, {'fn': 'match_single', 'pat': a['p'], 'ins': b['p']}))
    res = py_run(cmds)
    for k, (x, op) in enumerate(meta):
        a, b = res[2 * k], res[2 * k + 1]
        cases.append({'fam': 'op', 'p': x['p'], 'op': op, 'outp': a['out'][:5], 'oute': b['out'][:5],
                      'rp': a['res'] or {'kind': 'none'}, 're': b['res'] or {'kind': 'none'},
                      'haspe': bool(x.get('pe')) and op['fn'] != 'match_single', 'pe': x['e'] if x.get('pe') else pi2v.EV(0)})
    v.sample({'fam': 'op', 'p': cases[-1]['p'], 'op': cases[-1]['op'], 'rp': cases[-1]['rp']})
    # matching between two applications of the same definition must be matching of their expansions (judged by TLC's
    # matcher on the expansions: family "match" of Trace_PyOps)
    import c13
    vals = [pi2v.EV(0), pi2v.EV(1), pi2v.SV(0), pi2v.SYM(0), pi2v.MV(0), pi2v.MV(1), pi2v.IMP(pi2v.EV(0), pi2v.SV(1)), N['neg'](pi2v.EV(1)), N['bot']]
    mcases = c13.match_cases(c13.same_notation_eqlists(rng, vals, 80 if quick else 800), rng)
    for c in mcases:
        c['p'], c['op'] = c['eqs'], {'fn': c['api'], 'seed': c['seed']}
    cases += mcases
    res, _ = funcs.run_blocks(v, 'C12', 'Trace_PyOps', 'c12-trace', cases, '', bs=300, needs_sem=True)
    if any(f[2] == 'bad-expansion' for f in res.fails):
        raise pi2v.MachineryError('checks/c12.py jexpand disagrees with MLCore!Expand')
    for f in res.fails:
        c = cases[f[1] - 1]
        key = f"{f[2]}:{tkey(c['p'])}:{tkey(c.get('q') or c.get('op'))}"
        v.fail(key, f"{c['fam']} on {tkey(c['p'])[:250]} / {tkey(c.get('q') or c.get('op'))[:250]}: clause {f[2]}", {'family': 'pyops', 'case': c})
